--------------------------- MODULE GeneratorShape ---------------------------
(* C19: what an instance generated for parameters g must look like.           *)
(* g = [jobs, machines, dur, k : <<lo, hi>>, recirc, allow_less : BOOLEAN];   *)
(* nj, nm: the explicit arguments of generate(), 0 when not given.            *)
EXTENDS JobShop
WellShapedWhy(g, I, nj, nm) ==
    LET M == Len(I[1])
        bad(name, b) == IF b THEN {name} ELSE {}
    IN bad("job-count", IF nj # 0 THEN Len(I) # nj ELSE ~(Len(I) \in g.jobs[1]..g.jobs[2]))
  \cup bad("operations-per-job", \E j \in Jobs(I) : Len(I[j]) # M)
  \cup bad("machine-count", IF nm # 0 THEN M # nm ELSE ~(M \in g.machines[1]..g.machines[2]))
  \cup bad("machine-id", \E o \in AllOps(I) : \E m \in MSet(I, o) : ~(m \in 1..M))
  \cup bad("duration", \E o \in AllOps(I) : ~(Dur(I, o) \in g.dur[1]..g.dur[2]))
  \cup bad("machines-per-operation", \E o \in AllOps(I) : ~(Len(Op(I, o).ms) \in g.k[1]..g.k[2]) \/ ~NoDup(Op(I, o).ms))
  \cup bad("recirculation", ~g.recirc /\ g.k[2] = 1
                            /\ \E j \in Jobs(I) : {I[j][p].ms[1] : p \in 1..Len(I[j])} # 1..M)
  \cup bad("fewer-jobs-than-machines", ~g.allow_less /\ Len(I) < M)
WellShaped(g, I, nj, nm) == WellShapedWhy(g, I, nj, nm) = {}

(* --- the iteration protocol of GeneratorIter.tla as a function of a recorded call sequence  *)
(* (used by the monitor): the indices whose logged result differs from the protocol           *)
RECURSIVE IterMismatch(_, _, _, _)
IterMismatch(cs, i, c, limit) ==
    IF i > Len(cs) THEN {}
    ELSE CASE cs[i].c = "iter" -> IterMismatch(cs, i + 1, 0, limit)
           [] cs[i].c = "next" ->
                IF c >= limit THEN (IF cs[i].r # "stop" THEN {i} ELSE {}) \cup IterMismatch(cs, i + 1, c, limit)
                ELSE (IF cs[i].r # "yield" THEN {i} ELSE {}) \cup IterMismatch(cs, i + 1, c + 1, limit)
           [] OTHER -> IterMismatch(cs, i + 1, c, limit)
=============================================================================
