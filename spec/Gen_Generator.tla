--------------------------- MODULE Gen_Generator ---------------------------
(* behaviour generator for C19: every interleaving of constructor and        *)
(* generate() calls on a few generator objects, printed as JSON              *)
EXTENDS Generator, Json
VARIABLE calls
ggvars == <<gvars, calls>>
GGInit == GenInit /\ calls = <<>>
GGNext == \E g \in Gens :
            \/ Generate(g) /\ calls' = Append(calls, [a |-> "generate", g |-> g])
            \/ \E sd \in Seeds : Construct(g, sd) /\ calls' = Append(calls, [a |-> "new", g |-> g, seed |-> sd])
GGSpec == GGInit /\ [][GGNext]_ggvars
Terminal == \A g \in Gens : seedOf[g] # 0 /\ Len(outs[g]) = MaxCalls
Emit == Terminal => PrintT(<<"H", ToJson([calls |-> calls])>>)
=============================================================================
