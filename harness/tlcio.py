"""Talking to TLC: behaviour generation (spec -> code) and trace
monitoring (code -> spec)."""
from __future__ import annotations

import json
import re
from pathlib import Path

from .common import MachineryError, run_tlc, unescape_tla_string, workdir, seed


def generate(module: str, cfg: str, name: str, *, simulate: str | None = None,
             workers=1, timeout=600, seed_=None, depth=None) -> tuple[list[dict], object]:
    """Run a Gen_* model; return the distinct behaviours it printed."""
    extra = []
    if simulate:
        extra += ["-simulate", simulate]
        if depth:
            extra += ["-depth", str(depth)]
        extra += ["-seed", str(seed() if seed_ is None else seed_)]
    r = run_tlc(module, cfg, name, workers=workers, timeout=timeout, extra=extra, heap="4g")
    if r.rc not in (0,) and not simulate:
        raise MachineryError(f"generator {module}/{cfg} failed rc={r.rc}:\n" + r.out[-2000:])
    if simulate and r.rc not in (0, 124) :
        raise MachineryError(f"generator {module}/{cfg} failed rc={r.rc}:\n" + r.out[-2000:])
    seen, out = set(), []
    for raw in r.printed("H"):
        try:
            js = unescape_tla_string(raw.strip())
        except AssertionError:
            continue
        if js in seen:
            continue
        seen.add(js)
        try:
            out.append(json.loads(js))
        except json.JSONDecodeError:
            continue
    return out, r


def monitor(module: str, cfg: str, name: str, traces: list[dict], *, workers=16,
            timeout=900, header=None) -> tuple[dict, object]:
    """Validate recorded traces with a Trace_* monitor.  Returns
    {tid: [(event_index, clause, detail), ...]} - one entry per trace."""
    wd = workdir("mon-" + name)
    for t in traces:
        t.setdefault("owner", "M")
    doc = {"traces": traces}
    if header:
        doc.update(header)
    f = wd / "traces.json"
    f.write_text(json.dumps(doc))
    r = run_tlc(module, cfg, name + "-tlc", workers=workers, timeout=timeout,
                env={"TRACE_FILE": str(f)}, heap="8g")
    verdicts = {}
    for raw in r.printed("V"):
        try:
            v = json.loads(unescape_tla_string(raw.strip()))
        except (AssertionError, json.JSONDecodeError):
            continue
        verdicts[int(v["tid"])] = [(int(e[0]), e[1], e[2]) for e in v["errs"]]
    want = {t["tid"] for t in traces}
    if set(verdicts) != want or r.rc != 0:
        missing = sorted(want - set(verdicts))[:5]
        raise MachineryError(
            f"monitor {module}: rc={r.rc}, {len(verdicts)}/{len(want)} verdicts, "
            f"missing e.g. {missing}\n" + "\n".join(r.out.splitlines()[-40:]))
    return verdicts, r
