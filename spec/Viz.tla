-------------------------------- MODULE Viz --------------------------------
(***************************************************************************)
(* Gantt charts and the frame pipeline of the GIF/video creation           *)
(* (job_shop_lib/visualization).                                           *)
(*  - Bars(I, sched, colour): what a chart must draw                       *)
(*  - frames are written as frame_<i, at least two digits>.png and loaded  *)
(*    back in the order a sort of the file names gives; SortScheme =       *)
(*    "length_then_lex" (numeric order) or "lex" (plain string sort - the  *)
(*    design mutant that misorders from 100 frames on)                     *)
(***************************************************************************)
EXTENDS JobShop

(* one bar per scheduled operation: <<machine row, start, width, colour of its job>> *)
Bars(I, sched, colourOfJob) ==
    UNION {{<<m, sched[m][i][3], Dur(I, EOp(sched[m][i])), colourOfJob[sched[m][i][1]]>> : i \in DOMAIN sched[m]}
           : m \in DOMAIN sched}

RECURSIVE DigitsOf(_)
DigitsOf(n) == IF n < 10 THEN <<n>> ELSE Append(DigitsOf(n \div 10), n % 10)
FrameDigits(i) == IF i < 10 THEN <<0, i>> ELSE DigitsOf(i)        \* "%02d"
RECURSIVE LexLess(_, _)
LexLess(a, b) ==        \* "frame_" a ".png" < "frame_" b ".png" as strings ('.' sorts before every digit)
    IF a = <<>> THEN b # <<>>
    ELSE IF b = <<>> THEN FALSE
    ELSE IF Head(a) # Head(b) THEN Head(a) < Head(b)
    ELSE LexLess(Tail(a), Tail(b))
CONSTANT SortScheme
NameLess(i, k) ==
    IF SortScheme = "lex" THEN LexLess(FrameDigits(i), FrameDigits(k))
    ELSE Len(FrameDigits(i)) < Len(FrameDigits(k))
         \/ (Len(FrameDigits(i)) = Len(FrameDigits(k)) /\ LexLess(FrameDigits(i), FrameDigits(k)))
(* position of frame i among n frames after sorting the names *)
LoadPosition(n, i) == 1 + Cardinality({k \in 1..n : NameLess(k, i)})
FrameOrderOK(n) == \A i \in 1..n : LoadPosition(n, i) = i

VARIABLE n
VizInit == n = 1
VizNext == n < 260 /\ n' = n + 1
VizSpec == VizInit /\ [][VizNext]_n
Inv_C20_FrameOrder == FrameOrderOK(n)
=============================================================================
