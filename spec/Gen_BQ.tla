------------------------------- MODULE Gen_BQ -------------------------------
EXTENDS Gen_Build
FiltA == FiltNone \cup FiltSingles \cup FiltDefault
K0 == <<>>
Dummy == {<<>>}
=============================================================================
