------------------------------ MODULE MC_Opt_T ------------------------------
EXTENDS OptCheck
(* thorough tier: everything of the quick family, 5-operation shapes with flexible operations on 2 machines,   *)
(* all 3-operation shapes on 3 machines, 4-operation shapes with three durations, and the 6-operation shape   *)
(* 2+2+2 with single machines.  (A larger family - 3+3 and three durations on six operations - did not finish *)
(* within 50 minutes on 16 cores.)                                                                           *)
Fam == Family({<<2, 1>>, <<1, 1, 1>>, <<2, 2>>, <<2, 2, 1>>, <<3, 2>>}, MSeqs(2), {1, 2})
       \cup Family({<<2, 1>>, <<1, 1, 1>>}, MSeqs(3), {1, 2, 3})
       \cup Family({<<3, 1>>, <<2, 1, 1>>}, MSeqs(2), {1, 2, 3})
       \cup Family({<<2, 2, 2>>}, SingleMSeqs(2), {1, 2})
=============================================================================
