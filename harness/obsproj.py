"""Projection of observer objects onto abstract records (TLA+ side:
Observers.tla).  A change of representation only."""
from __future__ import annotations

from . import model

PROJECTORS = {}


def projector(*names):
    def deco(fn):
        for n in names:
            PROJECTORS[n] = fn
        return fn
    return deco


def _features(o):
    return {getattr(ft, "value", str(ft)): model.arr(a) for ft, a in o.features.items()}


@projector("IsReadyObserver", "DurationObserver", "IsScheduledObserver", "PositionInJobObserver",
           "RemainingOperationsObserver")
def _plain(o, subs):
    return {"f": _features(o)}


@projector("EarliestStartTimeObserver")
def _est(o, subs):
    return {"f": _features(o), "est": model.arr(o.earliest_start_times)}


@projector("IsCompletedObserver")
def _completed(o, subs):
    return {"f": _features(o),
            "rm": [model.num(x) for x in o.remaining_ops_per_machine.reshape(-1)],
            "rj": [model.num(x) for x in o.remaining_ops_per_job.reshape(-1)]}


@projector("CompositeFeatureObserver")
def _composite(o, subs):
    def idx(c):
        for i, x in enumerate(subs):
            if x is c:
                return i + 1
        return 0
    return {"f": _features(o), "comps": [idx(c) for c in o.feature_observers],
            "cols": {getattr(ft, "value", str(ft)): list(v) for ft, v in o.column_names.items()}}


@projector("UnscheduledOperationsObserver")
def _unsched(o, subs):
    return {"dq": [[model.op_ref(x) for x in dq] for dq in o.unscheduled_operations_per_job],
            "n": int(o.num_unscheduled_operations)}


@projector("HistoryObserver", "HistSub")
def _hist(o, subs):
    cap = 3 * o.dispatcher.instance.num_operations + 10      # longer is certainly wrong already; keep the log bounded
    return {"hist": [model.sop_ref(s) for s in o.history[:cap]]}


@projector("MakespanReward")
def _mk(o, subs):
    cap = 3 * o.dispatcher.instance.num_operations + 10
    return {"rewards": [model.num(r) for r in o.rewards[:cap]], "cur": model.num(o.current_makespan)}


@projector("IdleTimeReward")
def _idle(o, subs):
    cap = 3 * o.dispatcher.instance.num_operations + 10
    return {"rewards": [model.num(r) for r in o.rewards[:cap]]}


def project_graph_nodes(g) -> list:
    out = []
    for n in g.nodes:
        ty = n.node_type.name.lower()
        if ty == "operation":
            ent = n.operation.operation_id + 1
        elif ty == "machine":
            ent = n.machine_id + 1
        elif ty == "job":
            ent = n.job_id + 1
        else:
            ent = 0
        out.append([n.node_id + 1, ty, ent])
    return out


def _edge_type(attr) -> str:
    ty = attr.get("type")
    if ty is None:
        return "none"
    name = getattr(ty, "name", str(ty)).lower()
    return {"conjunctive": "conj", "disjunctive": "disj"}.get(name, name)


def project_graph_edges(g, typed=True) -> list:
    if typed:
        return sorted([int(u) + 1, int(v) + 1, _edge_type(a)] for u, v, a in g.graph.edges(data=True))
    return sorted([int(u) + 1, int(v) + 1] for u, v in g.graph.edges())


@projector("ResidualGraphUpdater")
def _residual(o, subs):
    g = o.job_shop_graph

    def idx(c):
        for i, x in enumerate(subs):
            if x is c:
                return i + 1
        return 0
    ico = getattr(o, "_is_completed_observer", None)
    return {"removed": [i + 1 for i, r in enumerate(g.removed_nodes) if r],
            "nnodes": len(g.removed_nodes),
            "edges": project_graph_edges(g, typed=False),
            "graph_nodes": sorted(int(n) + 1 for n in g.graph.nodes()),
            "rm_machines": bool(o.remove_completed_machine_nodes),
            "rm_jobs": bool(o.remove_completed_job_nodes),
            "dep": idx(ico) if ico is not None else 0,
            "builder": getattr(o, "_verif_builder", "")}


def project_observer(o, subs=()) -> dict:
    name = type(o).__name__
    rec = {"t": name, "name": name.replace("Observer", "")}
    fn = PROJECTORS.get(name)
    if fn is not None:
        rec.update(fn(o, subs))
    return rec
