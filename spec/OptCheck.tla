------------------------------ MODULE OptCheck ------------------------------
(* C08 (and the C03 oracle): for every instance of a family, TLC exhausts    *)
(* the tree of ALL dispatch histories and the tree of histories that only    *)
(* dispatch operations surviving the dominated-operations filter, and        *)
(* compares the two minima.  The evaluation is an action (not part of Init)  *)
(* so that the workers share it.                                              *)
EXTENDS JobShop, Families
CONSTANT InstFamily
VARIABLES inst, res
ovars == <<inst, res>>
OInit == inst \in InstFamily /\ res = [done |-> FALSE, c08 |-> TRUE, lb |-> TRUE, def |-> TRUE]
OEval == /\ ~res.done
         /\ res' = [done |-> TRUE,
                    c08 |-> (PositiveDurations(inst) => OptVia(inst, <<"dom">>) = Opt(inst)),
                    lb  |-> LowerBound(inst) <= Opt(inst),
                    \* filtering can never improve on the optimum
                    def |-> \A F \in {<<"dom", "idle">>, <<"idle">>, <<"immops">>, <<"immmach">>} : OptVia(inst, F) >= Opt(inst)]
         /\ UNCHANGED inst
OSpec == OInit /\ [][OEval]_ovars
Inv_C08 == res.c08
Inv_OptLowerBound == res.lb
Inv_FilterNeverBeatsOpt == res.def
=============================================================================
