SPECIFICATION TSpec
CONSTRAINT Verdict
CHECK_DEADLOCK FALSE
