"""Automatic mutation campaign (a development tool; not a registered check).

Generates small syntactic mutants of the library (flipped comparisons, +/-, and/or, min/max, off-by-one constants,
True/False, dropped statements, negated conditions), keeps those that the repository's own test suite does NOT notice,
and runs the quick checks of the properties anchored in the mutated file against each survivor - in a scratch worktree and
a scratch copy of /verif (VERIF_REPO), never in /repo.  The result is a kill table plus the list of mutants that neither
the tests nor the checks noticed, which is then triaged by hand (equivalent mutant, outside every property, or a gap).

  python -m harness.mutcamp gen  <out.json> [per_file] [seed]     enumerate + sample mutants
  python -m harness.mutcamp run  <out.json> <worker> <nworkers>   evaluate this worker's share (results in <out>.<worker>.jsonl)
  python -m harness.mutcamp report <out.json>
"""
from __future__ import annotations

import ast
import json
import os
import random
import shutil
import subprocess
import sys
import time
from pathlib import Path

VERIF = Path(__file__).resolve().parent.parent
REPO = "/repo"
ENV = dict(os.environ, PYTHONDONTWRITEBYTECODE="1", MPLBACKEND="Agg", PYTHONHASHSEED="0")

P = "job_shop_lib/"
TARGETS = {
    P + "dispatching/_dispatcher.py": ["C01", "C02", "C05", "C06", "C09", "C10", "C12"],
    P + "_schedule.py": ["C01", "C02", "C14", "C15"],
    P + "_scheduled_operation.py": ["C01", "C14", "C15"],
    P + "_operation.py": ["C15", "C14"],
    P + "_job_shop_instance.py": ["C14", "C15"],
    P + "dispatching/_ready_operation_filters.py": ["C07", "C08"],
    P + "dispatching/_factories.py": ["C07", "C10"],
    P + "dispatching/_history_observer.py": ["C10", "C12"],
    P + "dispatching/_unscheduled_operations_observer.py": ["C05", "C11", "C10", "C12"],
    P + "dispatching/rules/_dispatching_rules_functions.py": ["C04"],
    P + "dispatching/rules/_utils.py": ["C04"],
    P + "dispatching/rules/_dispatching_rule_solver.py": ["C04"],
    P + "dispatching/rules/_machine_chooser_factory.py": ["C04"],
    P + "dispatching/rules/_dispatching_rule_factory.py": ["C04"],
    P + "constraint_programming/_ortools_solver.py": ["C03"],
    P + "dispatching/feature_observers/_feature_observer.py": ["C11", "C12"],
    P + "dispatching/feature_observers/_earliest_start_time_observer.py": ["C11", "C12"],
    P + "dispatching/feature_observers/_duration_observer.py": ["C11", "C12"],
    P + "dispatching/feature_observers/_is_ready_observer.py": ["C11", "C12"],
    P + "dispatching/feature_observers/_is_scheduled_observer.py": ["C11", "C12"],
    P + "dispatching/feature_observers/_position_in_job_observer.py": ["C11", "C12"],
    P + "dispatching/feature_observers/_remaining_operations_observer.py": ["C11", "C12"],
    P + "dispatching/feature_observers/_is_completed_observer.py": ["C11", "C12"],
    P + "dispatching/feature_observers/_composite_feature_observer.py": ["C11", "C12"],
    P + "dispatching/feature_observers/_factory.py": ["C11"],
    P + "reinforcement_learning/_reward_observers.py": ["C13", "C12"],
    P + "reinforcement_learning/_single_job_shop_graph_env.py": ["C18", "C12", "C13"],
    P + "reinforcement_learning/_multi_job_shop_graph_env.py": ["C18", "C12"],
    P + "reinforcement_learning/_utils.py": ["C18"],
    P + "graphs/_job_shop_graph.py": ["C16", "C17"],
    P + "graphs/_node.py": ["C16"],
    P + "graphs/_build_disjunctive_graph.py": ["C16"],
    P + "graphs/_build_agent_task_graph.py": ["C16"],
    P + "graphs/graph_updaters/_graph_updater.py": ["C17", "C12"],
    P + "graphs/graph_updaters/_residual_graph_updater.py": ["C17", "C12"],
    P + "graphs/graph_updaters/_utils.py": ["C17"],
    P + "generation/_general_instance_generator.py": ["C19"],
    P + "generation/_instance_generator.py": ["C19"],
    P + "visualization/_plot_gantt_chart.py": ["C20"],
    P + "visualization/_gantt_chart_video_and_gif_creation.py": ["C20"],
    P + "visualization/_gantt_chart_creator.py": ["C20"],
}

CMP = {ast.Lt: "<=", ast.LtE: "<", ast.Gt: ">=", ast.GtE: ">", ast.Eq: "!=", ast.NotEq: "==", ast.Is: "is not",
       ast.IsNot: "is", ast.In: "not in", ast.NotIn: "in"}
CMPTXT = {ast.Lt: "<", ast.LtE: "<=", ast.Gt: ">", ast.GtE: ">=", ast.Eq: "==", ast.NotEq: "!=", ast.Is: "is",
          ast.IsNot: "is not", ast.In: "in", ast.NotIn: "not in"}
BIN = {ast.Add: ("+", "-"), ast.Sub: ("-", "+"), ast.Mult: ("*", "+"), ast.FloorDiv: ("//", "*")}
SWAPNAMES = {"max": "min", "min": "max", "any": "all", "all": "any"}


def sh(cmd, cwd=None, env=None, timeout=3600):
    try:
        p = subprocess.run(cmd, shell=True, cwd=cwd, env=env or ENV, stdout=subprocess.PIPE, stderr=subprocess.STDOUT,
                           text=True, timeout=timeout)
        return p.returncode, p.stdout
    except subprocess.TimeoutExpired:
        return 124, "timeout"


class Src:
    def __init__(self, text):
        self.text = text
        self.lines = text.splitlines(keepends=True)
        self.off = [0]
        for ln in self.lines:
            self.off.append(self.off[-1] + len(ln.encode("utf8")))
        self.bytes = text.encode("utf8")

    def pos(self, lineno, col):
        return self.off[lineno - 1] + col

    def seg(self, a, b):
        return self.bytes[a:b].decode("utf8")

    def replace(self, a, b, new):
        return (self.bytes[:a] + new.encode("utf8") + self.bytes[b:]).decode("utf8")


def in_docstring_or_annotation(node, parents):
    return False


def mutants_of(text):
    """Yield (kind, lineno, description, new_text)."""
    tree = ast.parse(text)
    s = Src(text)
    out = []
    skip_lines = set()
    # do not mutate inside raise statements / error messages / __repr__ / type-checking-only code
    for n in ast.walk(tree):
        if isinstance(n, ast.Raise):
            for k in range(n.lineno, (n.end_lineno or n.lineno) + 1):
                skip_lines.add(k)
        if isinstance(n, (ast.FunctionDef,)) and n.name in ("__repr__", "__str__"):
            for k in range(n.lineno, (n.end_lineno or n.lineno) + 1):
                skip_lines.add(k)
    for n in ast.walk(tree):
        ln = getattr(n, "lineno", None)
        if ln is None or ln in skip_lines:
            continue
        if isinstance(n, ast.Compare) and len(n.ops) == 1:
            op = n.ops[0]
            if type(op) in CMP:
                a = s.pos(n.left.end_lineno, n.left.end_col_offset)
                b = s.pos(n.comparators[0].lineno, n.comparators[0].col_offset)
                mid = s.seg(a, b)
                old = CMPTXT[type(op)]
                if old in mid and "\n" not in mid and "(" not in mid and ")" not in mid:
                    out.append(("cmp", ln, f"{old} -> {CMP[type(op)]}", s.replace(a, b, mid.replace(old, CMP[type(op)], 1))))
        elif isinstance(n, ast.BinOp) and type(n.op) in BIN:
            if isinstance(n.left, ast.Constant) and isinstance(n.left.value, str):
                continue
            if isinstance(n.right, ast.Constant) and isinstance(n.right.value, str):
                continue
            a = s.pos(n.left.end_lineno, n.left.end_col_offset)
            b = s.pos(n.right.lineno, n.right.col_offset)
            mid = s.seg(a, b)
            old, new = BIN[type(n.op)]
            if mid.count(old) == 1 and "\n" not in mid and "(" not in mid and ")" not in mid:
                out.append(("binop", ln, f"{old} -> {new}", s.replace(a, b, mid.replace(old, new, 1))))
        elif isinstance(n, ast.BoolOp) and len(n.values) == 2:
            a = s.pos(n.values[0].end_lineno, n.values[0].end_col_offset)
            b = s.pos(n.values[1].lineno, n.values[1].col_offset)
            mid = s.seg(a, b)
            old, new = ("and", "or") if isinstance(n.op, ast.And) else ("or", "and")
            if mid.count(old) == 1 and "(" not in mid and ")" not in mid:
                out.append(("bool", ln, f"{old} -> {new}", s.replace(a, b, mid.replace(old, new, 1))))
        elif isinstance(n, ast.UnaryOp) and isinstance(n.op, ast.Not):
            a = s.pos(n.lineno, n.col_offset)
            b = s.pos(n.operand.lineno, n.operand.col_offset)
            if s.seg(a, b).strip() == "not":
                out.append(("not", ln, "drop not", s.replace(a, b, "")))
        elif isinstance(n, ast.Constant) and not isinstance(n.value, str) and n.value is not None and n.value is not Ellipsis:
            a = s.pos(n.lineno, n.col_offset)
            b = s.pos(n.end_lineno, n.end_col_offset)
            if isinstance(n.value, bool):
                out.append(("const", ln, f"{n.value} -> {not n.value}", s.replace(a, b, str(not n.value))))
            elif isinstance(n.value, int) and -2 <= n.value <= 2:
                out.append(("const", ln, f"{n.value} -> {n.value + 1}", s.replace(a, b, str(n.value + 1))))
                if n.value >= 1:
                    out.append(("const", ln, f"{n.value} -> {n.value - 1}", s.replace(a, b, str(n.value - 1))))
        elif isinstance(n, ast.Call) and isinstance(n.func, ast.Name) and n.func.id in SWAPNAMES:
            a = s.pos(n.func.lineno, n.func.col_offset)
            b = s.pos(n.func.end_lineno, n.func.end_col_offset)
            out.append(("call", ln, f"{n.func.id} -> {SWAPNAMES[n.func.id]}", s.replace(a, b, SWAPNAMES[n.func.id])))
        elif isinstance(n, (ast.Expr, ast.AugAssign)) and not (
                isinstance(n, ast.Expr) and isinstance(n.value, ast.Constant)):
            if isinstance(n, ast.Expr) and not isinstance(n.value, ast.Call):
                continue
            a = s.pos(n.lineno, n.col_offset)
            b = s.pos(n.end_lineno, n.end_col_offset)
            out.append(("drop", ln, "statement -> pass: " + s.seg(a, b).split("\n")[0][:60], s.replace(a, b, "pass")))
        elif isinstance(n, ast.If) and not isinstance(n.test, ast.Constant):
            a = s.pos(n.test.lineno, n.test.col_offset)
            b = s.pos(n.test.end_lineno, n.test.end_col_offset)
            out.append(("if", ln, "condition negated", s.replace(a, b, "not (" + s.seg(a, b) + ")")))
        elif isinstance(n, ast.Subscript) and isinstance(n.slice, ast.Slice):
            sl = n.slice
            for part, nm in ((sl.lower, "lower"), (sl.upper, "upper")):
                if part is not None and not isinstance(part, ast.Constant):
                    a = s.pos(part.lineno, part.col_offset)
                    b = s.pos(part.end_lineno, part.end_col_offset)
                    out.append(("slice", ln, f"slice {nm} + 1", s.replace(a, b, "(" + s.seg(a, b) + ") + 1")))
    good = []
    for kind, ln, desc, new in out:
        try:
            ast.parse(new)
        except SyntaxError:
            continue
        good.append((kind, ln, desc, new))
    return good


def gen(outfile, per_file=12, seed=1):
    rnd = random.Random(int(seed))
    per_file = int(per_file)
    items = []
    for rel, checks in TARGETS.items():
        text = Path(REPO, rel).read_text()
        ms = mutants_of(text)
        rnd.shuffle(ms)
        # at most two mutants per source line, spread over the file
        seen = {}
        chosen = []
        for m in ms:
            if seen.get(m[1], 0) >= 1:
                continue
            seen[m[1]] = seen.get(m[1], 0) + 1
            chosen.append(m)
            if len(chosen) >= per_file:
                break
        for kind, ln, desc, new in chosen:
            items.append({"file": rel, "line": ln, "kind": kind, "desc": desc, "checks": checks,
                          "orig_line": text.splitlines()[ln - 1].strip()[:120]})
            items[-1]["id"] = f"m{len(items):04d}"
            items[-1]["new_text_file"] = None
        print(rel, len(ms), "->", len(chosen))
    Path(outfile).write_text(json.dumps({"seed": seed, "per_file": per_file, "items": items}, indent=1))
    print(len(items), "mutants")


def regenerate(item, seed, per_file):
    """Re-derive the mutated text deterministically (the json keeps only the description)."""
    text = Path(REPO, item["file"]).read_text()
    for kind, ln, desc, new in mutants_of(text):
        if kind == item["kind"] and ln == item["line"] and desc == item["desc"]:
            return new
    return None


def run(outfile, worker, nworkers):
    worker, nworkers = int(worker), int(nworkers)
    spec = json.loads(Path(outfile).read_text())
    items = [it for i, it in enumerate(spec["items"]) if i % nworkers == worker]
    res_path = Path(f"{outfile}.{worker}.jsonl")
    done = set()
    if res_path.exists():
        for line in res_path.read_text().splitlines():
            done.add(json.loads(line)["id"])
    wt, vc = f"/tmp/mc_wt_{worker}", f"/tmp/mc_vc_{worker}"
    sh(f"git -C {REPO} worktree remove --force {wt}")
    shutil.rmtree(wt, ignore_errors=True)
    shutil.rmtree(vc, ignore_errors=True)
    rc, out = sh(f"git -C {REPO} worktree add -q --detach {wt} HEAD")
    assert rc == 0, out
    sh(f"rsync -a --exclude .git --exclude .work --exclude seeded --exclude evidence/replay --exclude __pycache__ "
       f"--exclude states {VERIF}/ {vc}/")
    env = dict(ENV, PYTHONPATH=wt, VERIF_REPO=wt)
    try:
        for it in items:
            if it["id"] in done:
                continue
            new = regenerate(it, spec["seed"], spec["per_file"])
            r = dict(it)
            if new is None:
                r["outcome"] = "not-regenerated"
            else:
                Path(wt, it["file"]).write_text(new)
                t0 = time.time()
                rc, out = sh("/venv/bin/python -m pytest -q -p no:cacheprovider -x --timeout=900 2>&1 | tail -3", cwd=wt, env=env,
                             timeout=2400)
                last = out.strip().splitlines()[-1] if out.strip() else ""
                r["tests"] = last[:100]
                r["tests_s"] = round(time.time() - t0)
                if not (" passed" in last and "failed" not in last and "error" not in last):
                    r["outcome"] = "killed-by-tests"
                else:
                    r["outcome"] = "survived-all"
                    r["checks_run"] = {}
                    for pid in it["checks"]:
                        t0 = time.time()
                        rc, out = sh(f"./check {pid} --tier quick", cwd=vc, env=env, timeout=3600)
                        clauses = sorted({ln.split("clause=")[1].split(" at ")[0] for ln in out.splitlines() if "clause=" in ln})
                        r["checks_run"][pid] = {"exit": rc, "clauses": clauses[:5], "s": round(time.time() - t0)}
                        if rc == 2:
                            r["checks_run"][pid]["tail"] = out[-400:]
                        if rc == 1:
                            r["outcome"] = "killed-by-" + pid
                            break
                sh(f"git -C {wt} checkout -- .")
            with res_path.open("a") as f:
                f.write(json.dumps(r) + "\n")
            print(worker, r["id"], r["file"].split("/")[-1], r["line"], r["desc"][:40], "=>", r["outcome"], flush=True)
    finally:
        sh(f"git -C {REPO} worktree remove --force {wt}")
        shutil.rmtree(wt, ignore_errors=True)
        shutil.rmtree(vc, ignore_errors=True)


def one(outfile, mid, checks):
    """Evaluate one mutant of the campaign against the given comma-separated checks (triage of a survivor)."""
    spec = json.loads(Path(outfile).read_text())
    it = [x for x in spec["items"] if x["id"] == mid][0]
    new = regenerate(it, spec["seed"], spec["per_file"])
    tag = f"{mid}_{os.getpid()}"
    wt, vc = f"/tmp/mc1_wt_{tag}", f"/tmp/mc1_vc_{tag}"
    rc, out = sh(f"git -C {REPO} worktree add -q --detach {wt} HEAD")
    assert rc == 0, out
    try:
        Path(wt, it["file"]).write_text(new)
        sh(f"rsync -a --exclude .git --exclude .work --exclude seeded --exclude evidence/replay --exclude __pycache__ "
           f"--exclude states {VERIF}/ {vc}/")
        env = dict(ENV, PYTHONPATH=wt, VERIF_REPO=wt)
        for pid in checks.split(","):
            rc, out = sh(f"./check {pid} --tier quick", cwd=vc, env=env, timeout=3600)
            clauses = sorted({ln.split("clause=")[1].split(" at ")[0] for ln in out.splitlines() if "clause=" in ln})
            print(mid, it["file"].split("/")[-1], it["line"], it["desc"][:50], "|", pid, "exit", rc, clauses[:4], flush=True)
    finally:
        sh(f"git -C {REPO} worktree remove --force {wt}")
        shutil.rmtree(wt, ignore_errors=True)
        shutil.rmtree(vc, ignore_errors=True)


def report(outfile):
    rows = []
    for p in sorted(Path(outfile).parent.glob(Path(outfile).name + ".*.jsonl")):
        rows += [json.loads(x) for x in p.read_text().splitlines()]
    from collections import Counter
    c = Counter(r["outcome"].split("-by-")[0] + ("-by-check" if r["outcome"].startswith("killed-by-C") else
                                                 ("-by-tests" if r["outcome"] == "killed-by-tests" else "")) for r in rows)
    print(dict(c), "of", len(rows))
    for r in rows:
        if r["outcome"] == "survived-all" or any(v["exit"] == 2 for v in r.get("checks_run", {}).values()):
            print(r["id"], r["file"], r["line"], r["kind"], r["desc"], "|", r["orig_line"], "|",
                  {k: v["exit"] for k, v in r.get("checks_run", {}).items()})


if __name__ == "__main__":
    a = sys.argv[1:]
    {"gen": gen, "run": run, "report": report, "one": one}[a[0]](*a[1:])
