from . import dchecks, rchecks, ochecks, gchecks

CHECKS = {}
REPLAYERS = {}
CHECKS.update(dchecks.CHECKS)
CHECKS.update(rchecks.CHECKS)
CHECKS.update(ochecks.CHECKS)
CHECKS.update(gchecks.CHECKS)
