----------------------------- MODULE MC_Feat_Q -----------------------------
EXTENDS FeatureModel
Fam == Family({<<2, 1>>, <<1, 1, 1>>}, MSeqs(2), {0, 1, 2})
FamNF == Family({<<2, 1>>, <<1, 1, 1>>, <<2, 2>>}, SingleMSeqs(2), {0, 1, 2})
Filt == FiltNone \cup FiltDefault
All3 == {OPS, MACH, JOBS}
OrdAll == {<< <<"IsReadyObserver", All3>>, <<"EarliestStartTimeObserver", All3>>, <<"DurationObserver", All3>>,
              <<"IsScheduledObserver", All3>>, <<"PositionInJobObserver", {OPS}>>,
              <<"RemainingOperationsObserver", {MACH, JOBS}>>, <<"IsCompletedObserver", All3>> >>}
OrdRewards == {<< <<"MakespanReward", {}>>, <<"IdleTimeReward", {}>>, <<"UnscheduledOperationsObserver", {}>> >>}
(* every creation order of every pair/triple of the observers whose reset reads another observer *)
DepTypes == {<<"IsCompletedObserver", All3>>, <<"RemainingOperationsObserver", {MACH, JOBS}>>,
             <<"UnscheduledOperationsObserver", {}>>, <<"EarliestStartTimeObserver", {OPS}>>,
             <<"IsCompletedObserver", {JOBS}>>}
OrdDeps == {<<a>> : a \in DepTypes} \cup {<<a, b>> : a \in DepTypes, b \in DepTypes}
           \cup {<<a, b, c>> : a \in DepTypes, b \in DepTypes, c \in DepTypes}
OrdAllR == OrdAll \cup OrdRewards
FamTiny == Family({<<2, 1>>}, SingleMSeqs(2), {1, 2})
=============================================================================
