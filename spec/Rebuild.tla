------------------------------ MODULE Rebuild ------------------------------
(***************************************************************************)
(* Schedule.from_job_sequences (job_shop_lib/_schedule.py) as a function:  *)
(* rounds over the machines, each machine dispatching the job at the head  *)
(* of its sequence when that job's next operation runs on it; a round      *)
(* without progress rejects.  Plus the precedence graph of the sequences   *)
(* (C14: accepted <=> acyclic) and the instance views' definitions live in *)
(* JobShop.tla.                                                             *)
(***************************************************************************)
EXTENDS Graphs

RECURSIVE VisitFrom(_, _, _)
VisitFrom(I, acc, m) ==
    IF m > NM(I) \/ acc.err THEN acc
    ELSE LET s == acc.s  dq == acc.dq IN
         IF m > Len(dq) \/ dq[m] = <<>> THEN VisitFrom(I, acc, m + 1)
         ELSE LET j == Head(dq[m]) IN
              IF j \notin Jobs(I) \/ s.nxt[j] > Len(I[j]) THEN [acc EXCEPT !.err = TRUE]
              ELSE IF m \in MSet(I, <<j, s.nxt[j]>>)
                   THEN VisitFrom(I, [s |-> DispatchNext(I, s, j, m), dq |-> [dq EXCEPT ![m] = Tail(@)],
                                      prog |-> TRUE, err |-> FALSE], m + 1)
                   ELSE VisitFrom(I, acc, m + 1)
RECURSIVE RebuildLoop(_, _, _, _)
RebuildLoop(I, s, dq, fuel) ==
    IF Complete(I, s.sched) THEN [out |-> "ok", s |-> s]
    ELSE IF fuel = 0 THEN [out |-> "hang", s |-> s]
    ELSE LET r == VisitFrom(I, [s |-> s, dq |-> dq, prog |-> FALSE, err |-> FALSE], 1)
         IN IF r.err THEN [out |-> "exc:IndexError", s |-> r.s]
            ELSE IF ~r.prog THEN [out |-> "exc:ValidationError", s |-> r.s]
            ELSE RebuildLoop(I, r.s, r.dq, fuel - 1)
Rebuild(I, P) == RebuildLoop(I, InitState(I), P, NumOps(I) + 2)

(* job sequences of a schedule *)
JobSequences(sched) == [m \in DOMAIN sched |-> [i \in DOMAIN sched[m] |-> sched[m][i][1]]]

(* per-machine permutations: P[m] is a rearrangement of the jobs of the operations on m *)
JobsOn(I, m) == LET L == OpsByMachine(I, m) IN [i \in DOMAIN L |-> L[i][1]]
CountIn(q, x) == Cardinality({i \in DOMAIN q : q[i] = x})
IsRearrangement(q, L) == Len(q) = Len(L) /\ \A x \in Rng(L) \cup Rng(q) : CountIn(q, x) = CountIn(L, x)
Rearrangements(L) == {q \in [1..Len(L) -> Rng(L)] : IsRearrangement(q, L)}
RECURSIVE PermTuplesFrom(_, _)
PermTuplesFrom(I, m) ==
    IF m > NM(I) THEN {<<>>}
    ELSE {<<q>> \o rest : q \in Rearrangements(JobsOn(I, m)), rest \in PermTuplesFrom(I, m + 1)}
PermTuples(I) == PermTuplesFrom(I, 1)
IsPermTuple(I, P) == Len(P) = NM(I) /\ \A m \in Machines(I) : IsRearrangement(P[m], JobsOn(I, m))

(* the operation meant by position i of P[m]: the c-th occurrence of job j on m is the c-th operation of j on m *)
OpOfOcc(I, P, m, i) ==
    LET j == P[m][i]
        c == Cardinality({k \in 1..i : P[m][k] = j})
        onM == SelectSeq(JobOps(I, j), LAMBDA o : m \in MSet(I, o))
    IN onM[c]
SeqPrecedencePairs(I, P) ==
    ConjPairs(I) \cup UNION {{<<NodeOfOp(I, OpOfOcc(I, P, m, i)), NodeOfOp(I, OpOfOcc(I, P, m, i + 1))>>
                               : i \in 1..(Len(P[m]) - 1)} : m \in Machines(I)}
AdmitsSchedule(I, P) == Acyclic(SeqPrecedencePairs(I, P), NumOps(I))
=============================================================================
