"""Checks for C14 (views, serialisation, rebuilding) and C15 (equality)."""
from __future__ import annotations

import itertools
import json
import os
import random
import signal
import tempfile

import numpy as np

from . import dsession, model
from .dsession import _outcome
from .framework import Check
from .scenarios import random_behaviour, random_instance, tlc_behaviours


def _n(chk, quick, thorough):
    return min(thorough, 5 * quick) if chk.tier == "thorough" else quick   # thorough is capped at 5x quick: every tier must finish well inside its timeout on a shared machine


def _mc_plain(chk, module, spec, consts, invs, name):
    from . import framework
    saved = dict(framework.CONST_DEFAULTS)
    framework.CONST_DEFAULTS.clear()
    try:
        return chk.mc(module, spec, consts, invs, name=name, timeout=3000)
    finally:
        framework.CONST_DEFAULTS.update(saved)


# ---------------------------------------------------------------------------
def project_views(instance):
    views, raised = {}, []

    def put(name, fn):
        try:
            views[name] = fn()
        except Exception as e:  # pylint: disable=broad-except
            raised.append(name + ":" + type(e).__name__)

    put("num_jobs", lambda: int(instance.num_jobs))
    put("num_machines", lambda: int(instance.num_machines))
    put("num_operations", lambda: int(instance.num_operations))
    put("is_flexible", lambda: bool(instance.is_flexible))
    put("op_ids", lambda: [[[o.job_id + 1, o.position_in_job + 1, o.operation_id + 1] for o in job]
                           for job in instance.jobs])
    put("durations_matrix", lambda: [[model.num(d) for d in row] for row in instance.durations_matrix])

    def mm():
        out = []
        for row in instance.machines_matrix:
            out.append([[model.mid(m) for m in x] if isinstance(x, (list, tuple)) else [model.mid(x)] for x in row])
        return out
    put("machines_matrix", mm)
    put("machines_matrix_is_nested",
        lambda: all(isinstance(x, (list, tuple)) for row in instance.machines_matrix for x in row))
    put("durations_matrix_array", lambda: model.arr(instance.durations_matrix_array))

    def mma():
        a = np.asarray(instance.machines_matrix_array)
        if a.ndim == 2:
            a = a[:, :, None]
        return [[[model.NAN if np.isnan(x) else (model.num(x) + 1 if isinstance(model.num(x), int) else model.num(x))
                  for x in cell] for cell in row] for row in a]
    put("machines_matrix_array", mma)
    put("operations_by_machine", lambda: [[model.op_ref(o) for o in ops] for ops in instance.operations_by_machine])
    put("max_duration", lambda: model.num(instance.max_duration))
    put("max_duration_per_job", lambda: [model.num(x) for x in instance.max_duration_per_job])
    put("max_duration_per_machine", lambda: [model.num(x) for x in instance.max_duration_per_machine])
    put("job_durations", lambda: [model.num(x) for x in instance.job_durations])
    put("machine_loads", lambda: [model.num(x) for x in instance.machine_loads])
    put("total_duration", lambda: model.num(instance.total_duration))
    return views, raised


def roundtrip_events(s, rng):
    from job_shop_lib import JobShopInstance
    inst = s.instance
    meta = {"k": 7, "tag": "x" + str(s.tid % 5)}
    named = model.build_instance(s.inst, name=f"inst_{s.tid}", **meta)

    def ev(via, fn):
        out, r = _outcome(fn)
        e = {"a": "RoundTrip", "via": via, "out": out, "orig_name": named.name, "orig_metadata": meta,
             "inst": [], "name": "", "metadata": {"k": 0, "tag": ""}}
        if out == "ok":
            md = dict(r.metadata)
            e.update({"inst": model.instance_to_abstract(r), "name": r.name,
                      "metadata": {"k": md.get("k", -1), "tag": str(md.get("tag", ""))} if set(md) == set(meta)
                      else {"k": -2, "tag": "keys:" + ",".join(sorted(map(str, md)))}})
        s._ev(e)

    ev("dict", lambda: JobShopInstance.from_matrices(**named.to_dict()))
    ev("json", lambda: JobShopInstance.from_matrices(**json.loads(json.dumps(named.to_dict()))))
    if not inst.is_flexible:
        def taillard():
            with tempfile.TemporaryDirectory(prefix="verif_c14_") as d:
                p = os.path.join(d, f"inst_{s.tid}.txt")
                with open(p, "w", encoding="utf-8") as f:
                    f.write("# a comment line\n")
                    f.write(f"{named.num_jobs} {named.num_machines}\n")
                    for k, job in enumerate(named.jobs):
                        if k == 1:
                            f.write("# another comment\n")
                        f.write(" ".join(f"{op.machine_id} {op.duration}" for op in job) + "\n")
                return JobShopInstance.from_taillard_file(p, **meta)
        ev("taillard", taillard)


class _Timeout(Exception):
    pass


def _alarm(_sig, _frm):
    raise _Timeout()


def from_seqs_event(s, P):
    from job_shop_lib import Schedule
    old = signal.signal(signal.SIGALRM, _alarm)
    signal.alarm(5)
    try:
        out, sch = _outcome(lambda: Schedule.from_job_sequences(s.instance, [[j - 1 for j in q] for q in P]))
    except _Timeout:
        out, sch = "hang", None
    finally:
        signal.alarm(0)
        signal.signal(signal.SIGALRM, old)
    if out == "exc:_Timeout":
        out = "hang"
    s._ev({"a": "FromSeqs", "P": [list(q) for q in P], "out": out,
           "sched": model.project_schedule(sch) if out == "ok" else []})


def perm_tuples(inst, rng, limit):
    """Every tuple of per-machine rearrangements of the jobs on each machine
    (sampled down to `limit` when there are more)."""
    nm = max(m for job in inst for op in job for m in op["ms"])
    per = []
    for m in range(1, nm + 1):
        jobs = [j + 1 for j, job in enumerate(inst) for op in job if m in op["ms"]]
        per.append(sorted(set(itertools.permutations(jobs))))
    total = 1
    for p in per:
        total *= len(p)
    if total <= limit:
        return [list(t) for t in itertools.product(*per)]
    return [[rng.choice(p) for p in per] for _ in range(limit)]


def transform_events(s, rng):
    """The three instance transformations (beyond the listed properties); they must leave their input alone."""
    from job_shop_lib.generation._transformations import RemoveMachines, AddDurationNoise, RemoveJobs
    inst = s.instance

    def ev(kind, fn, **params):
        out, r = _outcome(fn)
        s._ev(dict({"a": "Transform", "kind": kind, "out": out,
                    "result": model.instance_to_abstract(r) if out == "ok" else []}, **params))

    if not inst.is_flexible:
        n = rng.randint(1, max(1, inst.num_machines))
        ev("remove_machines", lambda: RemoveMachines(n)(inst), n=n)
        lo, hi, level = 1, rng.randint(3, 9), rng.randint(0, 3)
        ev("add_noise", lambda: AddDurationNoise(lo, hi, level)(inst), lo=lo, hi=hi, level=level)
    target = rng.randint(1, inst.num_jobs + 1)
    ev("remove_jobs", lambda: RemoveJobs(1, inst.num_jobs, target_jobs=target)(inst), target=target)
    # (RemoveMachines returns - and renames - its input when nothing has to be removed; the session's
    #  fingerprint follows the object, so later events are judged against the instance as it is now)
    s.fp0 = model.instance_fingerprint(inst)


def sched_roundtrip_events(s):
    from job_shop_lib import Schedule
    sch = s.dispatcher.schedule
    sch.metadata["k"] = 7
    out, r = _outcome(lambda: Schedule.from_job_sequences(s.instance, sch.to_dict()["job_sequences"]))
    s._ev({"a": "SchedRoundTrip", "via": "job_sequences", "out": out,
           "sched": model.project_schedule(r) if out == "ok" else [], "metadata": {"k": 7}, "orig_metadata": {"k": 7}})
    out, r = _outcome(lambda: Schedule.from_dict(**json.loads(json.dumps(sch.to_dict()))))
    s._ev({"a": "SchedRoundTrip", "via": "dict", "out": out,
           "sched": model.project_schedule(r) if out == "ok" else [],
           "metadata": {"k": r.metadata.get("k", -1)} if out == "ok" else {"k": -1}, "orig_metadata": {"k": 7}})


def c14():
    chk = Check("C14", "model_checking")
    mod = "MC_Rebuild_T.tla" if chk.tier == "thorough" else "MC_Rebuild_Q.tla"
    _mc_plain(chk, mod, "RSpec", {"InstFamily": "<- Fam"},
              ["Inv_C14_Terminates", "Inv_C14_AcceptedIffAcyclic", "Inv_C14_AcceptedResult"], "C14-rebuild")
    rng = random.Random(chk.seed + 14)
    behs, _ = tlc_behaviours("c14", fam="FamA", filt="FiltNone", mode="complete",
                             simulate=f"num={_n(chk, 150, 1200)}", workers=4)
    behs_nf, _ = tlc_behaviours("c14nf", fam="FamNF", filt="FiltNone", mode="complete",
                                simulate=f"num={_n(chk, 200, 1500)}", workers=4)
    rb = [random_behaviour(rng, max_jobs=4, max_ops=4, max_m=4, flexible=bool(i % 2)) for i in range(_n(chk, 80, 800))]
    # gapped machine ids / irregular jobs
    for i in range(_n(chk, 30, 300)):
        inst = random_instance(rng, max_jobs=3, max_ops=3, max_m=2, flexible=False)
        for job in inst:
            for op in job:
                op["ms"] = [m * 2 for m in op["ms"]]        # machine 1 never used
        rb.append(random_behaviour(rng, inst=inst, filt=[]))
    traces = []
    for i, b in enumerate(behs + behs_nf + rb):
        s = dsession.DSession(i + 1, b["inst"], [], ())
        v, raised = project_views(s.instance)
        s._ev({"a": "Views", "views": v, "raised": raised})
        v, raised = project_views(s.instance)          # reading the views must not change them
        s._ev({"a": "Views", "views": v, "raised": raised})
        roundtrip_events(s, rng)
        if i % 3 == 0:
            transform_events(s, rng)
            v, raised = project_views(s.instance)      # the instance handed to the transformations, afterwards
            s._ev({"a": "Views", "views": v, "raised": raised})
        nonflex = not s.instance.is_flexible
        if nonflex and s.instance.num_operations <= 6:
            for P in perm_tuples(b["inst"], rng, _n(chk, 24, 200)):
                from_seqs_event(s, P)
        for a in b["hist"]:
            if a["a"] == "D":
                s.dispatch(a["j"], a["p"], a["m"])
        if nonflex and s.dispatcher.schedule.is_complete():
            sched_roundtrip_events(s)
        traces.append(s.trace())
    chk.monitor(traces, source="views+roundtrips+from_job_sequences")
    # nobody modifies the instance: builders, observers, solvers, environments on one instance object
    from .echecks import env_trace, random_env_cfg
    from .ochecks import random_creations
    traces = []
    for k, b in enumerate((behs_nf[: _n(chk, 20, 150)] + rb[: _n(chk, 30, 200)] + behs[: _n(chk, 10, 100)])):
        s = dsession.DSession(3000 + k, b["inst"], b["filt"], ())
        for bd in ("disjunctive", "agent_task", "agent_task_with_jobs", "complete_agent_task"):
            s.graph_event(bd)
        for (t, a) in random_creations(rng):
            s.create_builtin(t, a)
        s.create_graph_updater(rng.choice(("disjunctive", "agent_task")), True, True)
        for a in b["hist"]:
            if a["a"] == "D":
                s.dispatch(a["j"], a["p"], a["m"])
        s.solver_call(rng.choice(["spt", "fcfs", "mwkr", "mor", "obs_mwkr", "random"]), rng.choice(["first", "random"]), rng.choice([None, [], b["filt"]]))
        if s.dispatcher.schedule.is_complete():
            s.solved_event("dispatcher")
        if not s.instance.is_flexible:
            s.solved_event("cpsat")
        traces.append(s.trace())
    chk.monitor(traces, source="instance-unchanged-under-builders-observers-solvers")
    traces = [env_trace(len(behs) + len(behs_nf) + len(rb) + k + 1, b, random_env_cfg(rng, True), rng, episodes=1)
              for k, b in enumerate((behs + rb)[: _n(chk, 40, 300)])]
    chk.monitor(traces, source="instance-unchanged-under-environments")
    chk.assumptions.append("text encodings are compared up to abstract content (operations, name, metadata)")
    return chk.finish(
        "TLC: from_job_sequences as a function, for every non-flexible instance of the family and EVERY tuple of "
        "per-machine permutations: terminates, accepted <=> precedence graph acyclic, accepted result feasible/"
        "complete/ordered as requested; traces: every derived view compared with its definition (flexible, "
        "irregular, gapped machine ids, zero durations), round trips via dict/JSON/Taillard text, every permutation "
        "tuple of small instances through the real from_job_sequences (wall-clock guard), schedule round trips, "
        "instance fingerprint unchanged after every call of every trace")


# ---------------------------------------------------------------------------
def _eq_event(s, kind, a, b, ca, cb):
    def h(x):
        try:
            return hash(x)
        except TypeError:
            return id(x)
    hashable = kind in ("op",)
    s._ev({"a": "Eq", "kind": kind, "ca": ca, "cb": cb,
           "eq_ab": bool(a == b), "eq_ba": bool(b == a), "ne_ab": bool(a != b),
           "eq_aa": bool(a == a), "eq_bb": bool(b == b),   # noqa: PLR0124  pylint: disable=comparison-with-itself
           "hash_eq": (h(a) == h(b)) if hashable else True})


def c15():
    chk = Check("C15", "exploration")
    rng = random.Random(chk.seed + 15)
    from job_shop_lib import Operation, ScheduledOperation
    # pairs of instances / schedules drawn from TLC-generated behaviours
    behs, _ = tlc_behaviours("c15", fam="FamC", filt="FiltNone", mode="complete",
                             simulate=f"num={_n(chk, 300, 2500)}", workers=4)
    behs2, _ = tlc_behaviours("c15b", fam="FamA", filt="FiltNone", mode="complete",
                              simulate=f"num={_n(chk, 100, 1000)}", workers=4)
    behs = behs + behs2
    traces = []
    by_inst = {}
    for b in behs:
        by_inst.setdefault(json.dumps(b["inst"]), []).append(b)
    keys = sorted(by_inst)
    tid = 0
    for k in keys:
        group = by_inst[k]
        tid += 1
        s = dsession.DSession(tid, group[0]["inst"], [], ())
        inst_a = s.instance
        # instances: same content built independently; one-field differences
        inst_b = model.build_instance(group[0]["inst"], name="other_name")
        _eq_event(s, "instance", inst_a, inst_b, group[0]["inst"], group[0]["inst"])
        other = json.loads(rng.choice(keys))
        _eq_event(s, "instance", inst_a, model.build_instance(other), group[0]["inst"], other)
        mutated = json.loads(k)
        jj = rng.randrange(len(mutated))
        pp = rng.randrange(len(mutated[jj]))
        if rng.random() < 0.5:
            mutated[jj][pp]["d"] += 1
        else:
            mutated[jj][pp]["ms"] = [mutated[jj][pp]["ms"][0] + 1]
        _eq_event(s, "instance", inst_a, model.build_instance(mutated), group[0]["inst"], mutated)
        # operations at the same position of independently built instances
        for (ja, job) in enumerate(inst_a.jobs):
            for (pa, op) in enumerate(job):
                ob = inst_b.jobs[ja][pa]
                _eq_event(s, "op", op, ob, [group[0]["inst"][ja][pa], ja, pa], [group[0]["inst"][ja][pa], ja, pa])
                if ja < len(mutated) and pa < len(mutated[ja]):
                    om = model.build_instance(mutated).jobs[ja][pa]
                    _eq_event(s, "op", op, om, [group[0]["inst"][ja][pa], ja, pa], [mutated[ja][pa], ja, pa])
        # free-standing operations
        for _ in range(4):
            m1, d1, m2, d2 = rng.randint(0, 2), rng.randint(0, 3), rng.randint(0, 2), rng.randint(0, 3)
            _eq_event(s, "op", Operation(m1, d1), Operation(m2, d2), [[m1], d1], [[m2], d2])
        _eq_event(s, "op", Operation([0, 1], 2), Operation([0, 1], 2), [[0, 1], 2], [[0, 1], 2])
        _eq_event(s, "op", Operation([0, 1], 2), Operation([1, 0], 2), [[0, 1], 2], [[1, 0], 2])
        # machine lists where one is a proper prefix of the other
        _eq_event(s, "op", Operation([0, 2], 2), Operation([0], 2), [[0, 2], 2], [[0], 2])
        _eq_event(s, "op", Operation(1, 3), Operation([1, 0], 3), [[1], 3], [[1, 0], 3])
        longer = json.loads(k)
        jj2 = rng.randrange(len(longer))
        pp2 = rng.randrange(len(longer[jj2]))
        longer[jj2][pp2]["ms"] = longer[jj2][pp2]["ms"] + [max(longer[jj2][pp2]["ms"]) + 1]
        _eq_event(s, "instance", inst_a, model.build_instance(longer), group[0]["inst"], longer)
        _eq_event(s, "instance", model.build_instance(longer), inst_a, longer, group[0]["inst"])
        # schedules: every pair of histories of this instance
        scheds = []
        for b in group[:4]:
            d = model.make_dispatcher(model.build_instance(b["inst"]), [])
            for a in b["hist"]:
                if a["a"] == "D":
                    d.dispatch(d.instance.jobs[a["j"] - 1][a["p"] - 1], a["m"] - 1)
            scheds.append(d.schedule)
        for x, y in itertools.product(range(len(scheds)), repeat=2):
            _eq_event(s, "schedule", scheds[x], scheds[y], model.project_schedule(scheds[x]),
                      model.project_schedule(scheds[y]))
            sx = [e for ms in scheds[x].schedule for e in ms]
            sy = [e for ms in scheds[y].schedule for e in ms]
            for ea, eb in zip(sx[:3], sy[:3]):
                _eq_event(s, "scheduled_op", ea, eb, model.sop_ref(ea), model.sop_ref(eb))
        if len(scheds) >= 3:
            a, b_, c = scheds[0], scheds[1], scheds[2]
            s._ev({"a": "EqTriple", "kind": "schedule", "eq_ab": bool(a == b_), "eq_bc": bool(b_ == c),
                   "eq_ac": bool(a == c)})
        # a scheduled operation differing only in start time / machine
        op0 = inst_a.jobs[0][0]
        m0 = op0.machines[0]
        _eq_event(s, "scheduled_op", ScheduledOperation(op0, 0, m0), ScheduledOperation(inst_b.jobs[0][0], 0, m0),
                  [1, 1, m0 + 1, 0], [1, 1, m0 + 1, 0])
        _eq_event(s, "scheduled_op", ScheduledOperation(op0, 0, m0), ScheduledOperation(op0, 1, m0),
                  [1, 1, m0 + 1, 0], [1, 1, m0 + 1, 1])
        if len(op0.machines) > 1:
            _eq_event(s, "scheduled_op", ScheduledOperation(op0, 0, m0), ScheduledOperation(op0, 0, op0.machines[1]),
                      [1, 1, m0 + 1, 0], [1, 1, op0.machines[1] + 1, 0])
        # objects of DIFFERENT instances whose ids, times and chosen machines coincide:
        # (i) the same operation with another set of admissible machines, scheduled on the common one
        va, vb = json.loads(k), json.loads(k)
        va[0][0]["ms"] = [va[0][0]["ms"][0], 8]
        vb[0][0]["ms"] = [vb[0][0]["ms"][0], 9]
        ia, ib = model.build_instance(va), model.build_instance(vb)
        ma = va[0][0]["ms"][0] - 1
        _eq_event(s, "scheduled_op", ScheduledOperation(ia.jobs[0][0], 0, ma), ScheduledOperation(ib.jobs[0][0], 0, ma),
                  [va[0][0], 1, 1, ma + 1, 0], [vb[0][0], 1, 1, ma + 1, 0])
        # (ii) the same operations grouped into jobs differently (a job split in two): same ids and durations
        src = json.loads(k)
        jl = [i for i, job in enumerate(src) if len(job) >= 2]
        if jl:
            j0 = jl[0]
            split = src[:j0] + [src[j0][:1], src[j0][1:]] + src[j0 + 1:]
            isplit = model.build_instance(split)
            sch = []
            for inst_x in (inst_a, isplit):
                d = model.make_dispatcher(inst_x, [])
                for job in inst_x.jobs:
                    for op in job:
                        d.dispatch(op, op.machines[0])
                sch.append(d.schedule)
            _eq_event(s, "schedule", sch[0], sch[1], [k, model.project_schedule(sch[0])],
                      [json.dumps(split), model.project_schedule(sch[1])])
            ea = [e for ms_ in sch[0].schedule for e in ms_]
            eb = [e for ms_ in sch[1].schedule for e in ms_]
            for x, y in zip(ea, eb):
                cx = [x.operation.machines, x.operation.duration, x.operation.job_id, x.operation.position_in_job,
                      x.operation.operation_id, x.start_time, x.machine_id]
                cy = [y.operation.machines, y.operation.duration, y.operation.job_id, y.operation.position_in_job,
                      y.operation.operation_id, y.start_time, y.machine_id]
                _eq_event(s, "scheduled_op", x, y, cx, cy)
        # objects of different kinds (and things that are none of the four) are never equal to one another
        so0 = ScheduledOperation(op0, 0, m0)
        for (x, y, nx, ny) in ((so0, op0, "scheduled_op", "op"), (scheds[0], inst_a, "schedule", "instance"),
                               (op0, op0.operation_id, "op", "int"), (so0, None, "scheduled_op", "None"),
                               (inst_a, inst_a.name, "instance", "str"), (scheds[0], scheds[0].schedule, "schedule", "list"),
                               (op0, (op0.machines, op0.duration), "op", "tuple"), (so0, so0.start_time, "scheduled_op", "int")):
            _eq_event(s, "cross", x, y, [nx], [ny])
        traces.append(s.trace())
    # instances that come out of the library's own factories (generator, dict/JSON, Taillard text) against the same
    # content built by hand: "independently built objects with the same content"
    from job_shop_lib import JobShopInstance
    from job_shop_lib.generation import GeneralInstanceGenerator
    gen_cfgs = [dict(num_jobs=(2, 3), num_machines=(2, 3), duration_range=(1, 5)),
                dict(num_jobs=(2, 3), num_machines=3, duration_range=(1, 5), machines_per_operation=(1, 2)),
                dict(num_jobs=2, num_machines=(3, 4), duration_range=(0, 3), machines_per_operation=2,
                     allow_recirculation=True)]
    for gi in range(_n(chk, 12, 120)):
        g = GeneralInstanceGenerator(**dict(gen_cfgs[gi % len(gen_cfgs)], seed=chk.seed + gi))
        made = g.generate()
        ab = model.instance_to_abstract(made)
        s = dsession.DSession(len(traces) + 1, ab, [], ())
        by_hand = model.build_instance(ab, name=made.name)
        _eq_event(s, "instance", made, by_hand, ab, ab)
        _eq_event(s, "instance", made, JobShopInstance.from_matrices(**json.loads(json.dumps(made.to_dict()))), ab, ab)
        for (ja, job) in enumerate(made.jobs):
            for (pa, op) in enumerate(job):
                _eq_event(s, "op", op, by_hand.jobs[ja][pa], [ab[ja][pa], ja, pa], [ab[ja][pa], ja, pa])
        traces.append(s.trace())
    chk.monitor(traces, source="equality-pairs", case_key=lambda t: json.dumps(t["inst"]))
    chk.notes["explanation"] = ("a pure relation: the specification contributes Content equality only; pairs come from "
                                "TLC-generated instances and histories; claimed as exploration")
    return chk.finish(
        "pairs of operations / scheduled operations / schedules / instances built independently from "
        "TLC-generated instances and histories: equal content, and one-field differences (machines, duration, job "
        "structure, start time, machine assignment); a case is distinct by instance")


CHECKS = {"C14": c14, "C15": c15}
