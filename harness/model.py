"""Building real objects from abstract (TLA+-side, 1-based) values and
projecting real objects back onto the abstract state.

Nothing here computes an expectation; it is a change of representation.
Ids are converted exactly once, here: jobs, positions, machines and operation
ids are 1-based on the TLA+ side.
"""
from __future__ import annotations

import math

import numpy as np

from job_shop_lib import JobShopInstance, Operation
from job_shop_lib.dispatching import (
    Dispatcher,
    create_composite_operation_filter,
)

FILTER_NAMES = {
    "dom": "dominated_operations",
    "idle": "non_idle_machines",
    "immops": "non_immediate_operations",
    "immmach": "non_immediate_machines",
}


def build_instance(inst, name="verif", **metadata) -> JobShopInstance:
    """inst: [[{"ms": [m..], "d": d}, ...], ...] with 1-based machine ids."""
    jobs = []
    for job in inst:
        ops = []
        for op in job:
            ms = [m - 1 for m in op["ms"]]
            ops.append(Operation(ms if len(ms) > 1 else ms[0], op["d"]))
        jobs.append(ops)
    INSTANCE_STYLE["n"] += 1
    if INSTANCE_STYLE["mix"] and INSTANCE_STYLE["n"] % 3 == 0 and len(jobs) > 1:
        # "every instance" includes one assembled from Operation objects that were attached to another instance
        # before (what the library's own transformations do): a scratch instance with the jobs in another order
        # numbers them first; the instance under test must number them again.
        JobShopInstance([list(j) for j in reversed(jobs)] + [[Operation(0, 1)]], name="scratch")
    return JobShopInstance(jobs, name=name, **metadata)


INSTANCE_STYLE = {"mix": True, "n": 0}


def mid(m):
    """machine id -> 1-based int; anything that is not an integer id becomes a sentinel (can only mismatch)."""
    v = num(m)
    return v + 1 if isinstance(v, int) and not isinstance(v, bool) and abs(v) < 900000 else NONINT


def instance_to_abstract(instance: JobShopInstance):
    return [
        [{"ms": [mid(m) for m in op.machines], "d": num(op.duration)} for op in job]
        for job in instance.jobs
    ]


FILTER_STYLE = {"mix": True, "n": 0}


def make_filter(filt):
    """The composite is built the ways the API allows: names, enum members or the
    functions themselves, handed over as a list, a tuple, a generator or an iterator."""
    if not filt:
        return None
    names = [FILTER_NAMES[f] for f in filt]
    if not FILTER_STYLE["mix"]:
        return create_composite_operation_filter(names)
    from job_shop_lib.dispatching import ReadyOperationsFilterType, ready_operations_filter_factory
    FILTER_STYLE["n"] += 1
    k = FILTER_STYLE["n"]
    items = []
    for i, nm in enumerate(names):
        style = (k + i) % 3
        items.append(nm if style == 0 else ReadyOperationsFilterType(nm) if style == 1
                     else ready_operations_filter_factory(nm))
    shape = k % 4
    arg = items if shape == 0 else tuple(items) if shape == 1 else (x for x in items) if shape == 2 else iter(items)
    return create_composite_operation_filter(arg)


def make_dispatcher(instance, filt) -> Dispatcher:
    return Dispatcher(instance, ready_operations_filter=make_filter(filt))


def op_ref(op) -> list:
    return [op.job_id + 1, op.position_in_job + 1]


def sop_ref(sop) -> list:
    """scheduled operation -> [j, p, m, start]"""
    return [sop.operation.job_id + 1, sop.operation.position_in_job + 1,
            sop.machine_id + 1, int(sop.start_time)]


def entry(sop) -> list:
    return [sop.operation.job_id + 1, sop.operation.position_in_job + 1,
            int(sop.start_time)]


# TLC compares only values of one type, so "not an integer" is encoded by
# sentinels no specification operator ever produces (they can only mismatch).
NAN, PINF, NINF, NONINT = -999001, 999002, -999002, -999003


def num(x):
    """Numbers cross to TLA+ as ints; anything else can only mismatch."""
    if isinstance(x, (bool, np.bool_)):
        return bool(x)
    if isinstance(x, (int, np.integer)):
        return int(x)
    if isinstance(x, (float, np.floating)):
        if math.isnan(x):
            return NAN
        if math.isinf(x):
            return PINF if x > 0 else NINF
        if float(x) == int(x) and abs(x) < 900000:
            return int(x)
        return NONINT
    return NONINT


def arr(a):
    """numpy array -> nested lists of num()."""
    a = np.asarray(a)
    if a.ndim == 0:
        return num(a.item())
    return [arr(x) for x in a]


def project_schedule(schedule) -> list:
    """[[j, p, start], ...] per machine.  An entry whose operation is not THE operation object of the schedule's
    instance at that (job, position) - a stray or foreign Operation that got in - is logged with a sentinel job id,
    so that the specification sees a schedule that mentions something outside the instance."""
    jobs = getattr(getattr(schedule, "instance", None), "jobs", None)

    def ent(s):
        e = entry(s)
        try:
            if jobs is not None and jobs[s.operation.job_id][s.operation.position_in_job] is not s.operation:
                e[0] = NONINT
        except Exception:  # noqa: BLE001
            e[0] = NONINT
        return e
    return [[ent(s) for s in ms] for ms in schedule.schedule]


def project_core(dispatcher: Dispatcher) -> dict:
    sch = dispatcher.schedule
    return {
        "sched": project_schedule(sch),
        "nxt": [int(x) + 1 for x in dispatcher.job_next_operation_index],
        "jfree": [int(x) for x in dispatcher.job_next_available_time],
        "mfree": [int(x) for x in dispatcher.machine_next_available_time],
    }


def project_derived(dispatcher: Dispatcher) -> dict:
    """Uncached public read-outs of the schedule object."""
    sch = dispatcher.schedule
    return {
        "mk": int(sch.makespan()),
        "nsch": int(sch.num_scheduled_operations),
        "complete": bool(sch.is_complete()),
    }


MEMOISED = {"current_time", "available_operations", "raw_ready_operations", "unscheduled_operations",
            "scheduled_operations", "available_machines", "available_jobs", "completed_operations",
            "uncompleted_operations", "ongoing_operations"}


def project_query_value(name: str, value):
    """A query result -> abstract value (lists keep the order the code
    returned; the specification decides whether order matters)."""
    if name == "current_time":
        return num(value)
    if name in ("available_machines", "available_jobs"):
        return [int(x) + 1 for x in value]
    if name == "ongoing_operations":
        return [entry(s) for s in value]
    # lists / sets of operations
    return [op_ref(o) for o in value]


def project_cache(dispatcher: Dispatcher) -> list:
    """The memoisation dictionary, as [[name, value], ...] sorted by name.
    (Private attribute, read only: the specification models it.)"""
    out = []
    for k in sorted(map(str, getattr(dispatcher, "_cache", {}) or {})):
        if k in MEMOISED:
            try:
                out.append([k, project_query_value(k, dispatcher._cache[k])])  # pylint: disable=protected-access
            except Exception:  # pylint: disable=broad-except
                pass            # the private layout is the library's business; behaviour is judged through the queries
    return out


def project_cache_other(dispatcher: Dispatcher) -> list:
    """Names of memoised entries the specification does not know."""
    c = getattr(dispatcher, "_cache", {}) or {}
    try:
        known = {row[0] for row in project_cache(dispatcher)}
        return sorted(str(k) for k in c if str(k) not in known)
    except Exception:  # pylint: disable=broad-except
        return ["unreadable"]


def instance_fingerprint(instance: JobShopInstance):
    """Full content of the instance as the library sees it now (C14:
    nobody modifies the instance)."""
    return {
        "jobs": [
            [
                {
                    "ms": [mid(m) for m in op.machines],
                    "d": num(op.duration),
                    "j": op.job_id + 1,
                    "p": op.position_in_job + 1,
                    "id": op.operation_id + 1,
                }
                for op in job
            ]
            for job in instance.jobs
        ],
        "name": instance.name,
        # cached array views handed out to callers (an observer must not write through them)
        "dma": _safe_arr(instance, "durations_matrix_array"),
        "mma": _safe_arr(instance, "machines_matrix_array"),
        # every other cached view is a mutable list that callers receive by reference
        "views": {v: _view(instance, v) for v in _LIST_VIEWS},
        "metadata": repr(sorted((str(k), repr(x)) for k, x in instance.metadata.items())),
    }


def _safe_arr(instance, name):
    """a cached array view; a view that cannot be computed is 'the same' only as long as it keeps failing the same way
    (the views themselves are judged by C14's Views events, where a raising view is reported as such)"""
    try:
        return arr(getattr(instance, name))
    except Exception as ex:  # noqa: BLE001
        return "exc:" + type(ex).__name__


_LIST_VIEWS = ("durations_matrix", "machines_matrix", "operations_by_machine", "max_duration_per_job",
               "max_duration_per_machine", "job_durations", "machine_loads", "num_machines", "num_operations",
               "num_jobs", "is_flexible", "max_duration", "total_duration")


def _view(instance, name):
    try:
        v = getattr(instance, name)
    except Exception as ex:  # noqa: BLE001  (a view that cannot be computed stays "the same" only if it keeps failing)
        return "exc:" + type(ex).__name__
    if name == "operations_by_machine":
        return [[getattr(o, "operation_id", None) for o in ops] for ops in v]
    return repr(v)
