---------------------------- MODULE RebuildModel ----------------------------
(* C14: for every non-flexible instance of the family and EVERY tuple of     *)
(* per-machine permutations: termination, accepted <=> a schedule exists,    *)
(* the accepted result is feasible, complete and ordered as requested.       *)
EXTENDS Rebuild, Families
CONSTANT InstFamily
VARIABLES inst, P, res
rvars == <<inst, P, res>>
RInit == inst \in InstFamily /\ P \in PermTuples(inst) /\ res = [done |-> FALSE, out |-> "", s |-> InitState(inst)]
REval == ~res.done /\ res' = [done |-> TRUE, out |-> Rebuild(inst, P).out, s |-> Rebuild(inst, P).s]
         /\ UNCHANGED <<inst, P>>
RSpec == RInit /\ [][REval]_rvars
Inv_C14_Terminates == res.done => res.out \in {"ok", "exc:ValidationError"}
Inv_C14_AcceptedIffAcyclic == res.done => ((res.out = "ok") <=> AdmitsSchedule(inst, P))
Inv_C14_AcceptedResult ==
    (res.done /\ res.out = "ok") =>
        /\ Feasible(inst, res.s.sched) /\ Complete(inst, res.s.sched) /\ SemiActive(inst, res.s.sched)
        /\ JobSequences(res.s.sched) = P
=============================================================================
