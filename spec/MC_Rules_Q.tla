----------------------------- MODULE MC_Rules_Q -----------------------------
EXTENDS RuleSolver
Fam == Family({<<2, 1>>, <<1, 1, 1>>}, MSeqs(2), {0, 1, 2})
Filt == FiltNone \cup FiltDefault \cup {<<"dom">>}
NoKinds == <<>>
=============================================================================
