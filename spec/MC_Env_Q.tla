------------------------------ MODULE MC_Env_Q ------------------------------
EXTENDS EnvModel
Fam == Family({<<2, 1>>, <<1, 1, 1>>}, MSeqs(2), {0, 1}) \cup Family({<<2, 1>>, <<1, 1>>}, MSeqs(3), {1})
Filt == FiltNone \cup {<<"dom">>}
Ord == {<< <<"IsReadyObserver", {OPS, MACH, JOBS}>> >>}
=============================================================================
