"""Entry point:  check <ID> [--tier quick|thorough] [--replay PATH]"""
from __future__ import annotations

import argparse
import os
import sys


def main(argv=None):
    ap = argparse.ArgumentParser()
    ap.add_argument("pid")
    ap.add_argument("--tier", choices=["quick", "thorough"])
    ap.add_argument("--replay")
    a = ap.parse_args(argv)
    if a.tier:
        os.environ["VERIF_TIER"] = a.tier
    from . import framework
    if a.pid == "selftest":
        from . import selftest
        return framework.main_wrapper(selftest.run)
    from . import registry
    if a.replay:
        from . import replay
        return framework.main_wrapper(lambda: replay.run(a.pid, a.replay))
    fn = registry.CHECKS.get(a.pid)
    if fn is None:
        print(f"unknown property {a.pid}")
        return 2
    return framework.main_wrapper(fn)


if __name__ == "__main__":
    sys.exit(main())
