SPECIFICATION SpecFaults
CONSTANTS
  InstFamily <- Fam
  FiltFamily <- Filt
  NObs = 0
  ObsKinds <- NoKinds
  MutStart = "ok"
  MutCache = "ok"
  MutValidate = "ok"
  MutNotify = "ok"
CONSTRAINT Depth8
CHECK_DEADLOCK FALSE
INVARIANT TypeOK
INVARIANT Inv_Feasible
INVARIANT Inv_Tracking
INVARIANT Inv_SemiActive
INVARIANT Inv_RejectChangesNothing
INVARIANT Inv_CacheCoherent
