----------------------------- MODULE MC_Feat_T -----------------------------
EXTENDS FeatureModel
Fam == Family({<<2, 1>>, <<1, 1, 1>>}, MSeqs(2), {0, 1, 2}) \cup Family({<<2, 2>>, <<3, 1>>}, MSeqs(2), {1, 2})
       \cup Family({<<2, 1>>}, MSeqs(3), {0, 1, 3})
FamNF == Family({<<2, 1>>, <<1, 1, 1>>, <<2, 2>>, <<2, 1, 1>>}, SingleMSeqs(2), {0, 1, 2})
Filt == FiltNone \cup FiltDefault \cup {<<"dom">>, <<"immops">>}
All3 == {OPS, MACH, JOBS}
OrdAll == {<< <<"IsReadyObserver", All3>>, <<"EarliestStartTimeObserver", All3>>, <<"DurationObserver", All3>>,
              <<"IsScheduledObserver", All3>>, <<"PositionInJobObserver", {OPS}>>,
              <<"RemainingOperationsObserver", {MACH, JOBS}>>, <<"IsCompletedObserver", All3>> >>}
OrdRewards == {<< <<"MakespanReward", {}>>, <<"IdleTimeReward", {}>>, <<"UnscheduledOperationsObserver", {}>> >>}
DepTypes == {<<"IsCompletedObserver", All3>>, <<"RemainingOperationsObserver", {MACH, JOBS}>>,
             <<"UnscheduledOperationsObserver", {}>>, <<"EarliestStartTimeObserver", {OPS}>>,
             <<"IsCompletedObserver", {JOBS}>>, <<"RemainingOperationsObserver", {JOBS}>>}
OrdDeps == {<<a>> : a \in DepTypes} \cup {<<a, b>> : a \in DepTypes, b \in DepTypes}
           \cup {<<a, b, c>> : a \in DepTypes, b \in DepTypes, c \in DepTypes}
OrdAllR == OrdAll \cup OrdRewards
FamTiny == Family({<<2, 1>>, <<1, 1>>}, SingleMSeqs(2), {1, 2})
=============================================================================
