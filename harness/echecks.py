"""Check for C18 (and the environment halves of C09, C12, C13)."""
from __future__ import annotations

import random

from . import dsession, esession, model
from .dsession import _outcome
from .esession import ESession, FEATURE_CLASSES
from .framework import Check
from .ochecks import SUPPORTED
from .scenarios import random_behaviour, tlc_behaviours

BUILDERS = ["disjunctive", "agent_task", "agent_task_with_jobs", "complete_agent_task"]


def _n(chk, quick, thorough):
    return min(thorough, 5 * quick) if chk.tier == "thorough" else quick   # thorough is capped at 5x quick: every tier must finish well inside its timeout on a shared machine


def random_env_cfg(rng, positive):
    k = rng.randint(1, 4)
    feats = []
    for t in rng.sample(FEATURE_CLASSES, k):
        sup = SUPPORTED[t]
        fts = [] if rng.random() < 0.5 else rng.sample(sup, rng.randint(1, len(sup)))
        if t == "IsCompletedObserver" and fts == ["operations"]:
            fts = []
        feats.append((t, fts))
    filt = rng.choice([["dom"], ["dom"], [], ["dom", "idle"], ["immops"]])
    return {"builder": rng.choice(BUILDERS), "features": feats,
            "reward": rng.choice(["MakespanReward", "IdleTimeReward"]),
            "rm_machines": rng.random() < 0.8, "rm_jobs": rng.random() < 0.8,
            "filt": filt, "use_padding": True}


def env_trace(tid, beh, cfg, rng, episodes=2, fault_prob=0.15):
    """Episode 1 follows the behaviour's dispatch sequence; later episodes are
    random walks; invalid decisions are injected; the decisions of the last
    episode are repeated on a fresh environment at the end."""
    try:
        s = ESession(tid, beh["inst"], cfg)
    except esession.EnvConstructionFailed as ex:
        f = dsession.DSession(tid, [[{"ms": [1], "d": 1}]], [])
        f.header["env"] = {"use_padding": bool(cfg["use_padding"]), "builder": cfg["builder"], "multi": False,
                           "nvec": [1, 1], "start": [0, -1], "declared_shapes": {}}
        f._ev({"a": "EnvCtorFailed", "out": str(ex), "builder": cfg["builder"]})
        return f.trace()
    inst = beh["inst"]
    nm = max(m for job in inst for op in job for m in op["ms"])
    acts = []
    for ep in range(episodes):
        s.env_reset()
        acts = []
        nxt = [1] * len(inst)
        plan = [a for a in beh["hist"] if a["a"] == "D"] if ep == 0 else None
        k = 0
        total = sum(len(j) for j in inst)
        done = 0
        cut = total if rng.random() < 0.55 else rng.randint(0, total)      # resets also in the middle of an episode
        while done < cut:
            if rng.random() < fault_prob:
                j = rng.randint(1, len(inst))
                m = rng.randint(-2, nm + 1)          # 0 is the library's -1; -1, -2 are its -2, -3
                fin = nxt[j - 1] > len(inst[j - 1])
                op = None if fin else inst[j - 1][nxt[j - 1] - 1]
                bad = fin or m < 0 or (m == 0 and len(op["ms"]) > 1) or (m > 0 and m not in op["ms"])
                if bad:
                    s.env_step(j, m)
                continue
            if plan is not None and k < len(plan):
                a = plan[k]
                k += 1
                j, m = a["j"], a["m"]
                if nxt[j - 1] != a["p"]:
                    plan = None
                    continue
            else:
                ready = [j for j in range(1, len(inst) + 1) if nxt[j - 1] <= len(inst[j - 1])]
                j = rng.choice(ready)
                m = rng.choice(inst[j - 1][nxt[j - 1] - 1]["ms"])
            op = inst[j - 1][nxt[j - 1] - 1]
            if len(op["ms"]) == 1 and rng.random() < 0.3:
                m = 0
            if s.env_step(j, m) != "ok":
                break
            acts.append((j, m))
            nxt[j - 1] += 1
            done += 1
        if done == total and fault_prob > 0 and rng.random() < 0.7:
            # the episode is over: every job is "a job with no operations left"
            jf = rng.randint(1, len(inst))
            s.env_step(jf, rng.choice(inst[jf - 1][-1]["ms"] + [0]))
    s.env_fresh_run(acts)
    return s.trace()


# ---------------------------------------------------------------------------
def multi_traces(tid0, rng, gen_kw, cfg, resets, steps_rng, fault_prob=0.0):
    """One multi-instance environment, `resets` episodes; one trace per episode."""
    from job_shop_lib.generation import GeneralInstanceGenerator
    from job_shop_lib.reinforcement_learning import MultiJobShopGraphEnv
    from job_shop_lib import graphs as G
    builder_fn = {"disjunctive": G.build_disjunctive_graph, "agent_task": G.build_agent_task_graph,
                  "agent_task_with_jobs": G.build_agent_task_graph_with_jobs,
                  "complete_agent_task": G.build_complete_agent_task_graph}[cfg["builder"]]
    gen = GeneralInstanceGenerator(**gen_kw)
    kw = dict(instance_generator=gen, feature_observer_configs=esession._feature_configs(cfg["features"]),
              graph_initializer=builder_fn,
              graph_updater_config=esession._updater_config(cfg["rm_machines"], cfg["rm_jobs"]),
              reward_function_config=esession._reward_config(cfg["reward"]), use_padding=True)
    from job_shop_lib import dispatching as _D
    mfilt = cfg.get("multi_filter", "dom")
    fn = {"dom": _D.filter_dominated_operations, "idle": _D.filter_non_idle_machines,
          "immmach": _D.filter_non_immediate_machines, "immops": _D.filter_non_immediate_operations}[mfilt]
    if mfilt != "dom" or rng.random() < 0.5:
        kw["ready_operations_filter"] = fn
    out, env = _outcome(lambda: MultiJobShopGraphEnv(**kw))
    jobs = gen_kw["num_jobs"] if isinstance(gen_kw["num_jobs"], tuple) else (gen_kw["num_jobs"],) * 2
    machines = gen_kw["num_machines"] if isinstance(gen_kw["num_machines"], tuple) else (gen_kw["num_machines"],) * 2
    mpo = gen_kw.get("machines_per_operation", 1)
    flexible_gen = (mpo if isinstance(mpo, int) else mpo[1]) > 1 or bool(gen_kw.get("allow_recirculation", False))
    ctor = {"updater": "ResidualGraphUpdater", "rm_machines": bool(cfg["rm_machines"]),
            "rm_jobs": bool(cfg["rm_jobs"]), "reward": cfg["reward"], "filter": fn.__name__,
            "use_padding": True}
    hdr = {"generator": {"jobs": list(jobs), "machines": list(machines)}, "ctor": ctor}
    traces = []
    placeholder = [[{"ms": [1], "d": 1}]]
    if out != "ok":
        s = dsession.DSession(tid0, placeholder, [])
        s.header["env"] = dict(hdr, use_padding=True, builder=cfg["builder"], multi=True, nvec=[1, 1], start=[0, -1],
                               declared_shapes={})
        s._ev({"a": "MultiResetFailed", "out": "ctor:" + out, "flexible_generator": flexible_gen})
        return [s.trace()]
    c2 = dict(cfg, space_owner=env, filt=[mfilt])
    for ep in range(resets):
        tid = tid0 + ep
        out, r = _outcome(env.reset)
        if out != "ok":
            s = dsession.DSession(tid, placeholder, [])
            s.header["env"] = dict(hdr, use_padding=True, builder=cfg["builder"], multi=True, nvec=[1, 1],
                                   start=[0, -1], declared_shapes={})
            s._ev({"a": "MultiResetFailed", "out": out, "flexible_generator": flexible_gen})
            traces.append(s.trace())
            continue
        single = env.single_job_shop_graph_env
        instance = single.instance
        inst = model.instance_to_abstract(instance)
        s = ESession(tid, inst, c2, env=env, instance=instance, extra_env_header=hdr)
        upd = single.graph_updater
        flt = single.dispatcher.ready_operations_filter
        episode = {"updater": type(upd).__name__,
                   "rm_machines": bool(getattr(upd, "remove_completed_machine_nodes", None)),
                   "rm_jobs": bool(getattr(upd, "remove_completed_job_nodes", None)),
                   "reward": type(single.reward_function).__name__,
                   "filter": getattr(flt, "__name__", str(flt)), "use_padding": bool(single.use_padding)}
        s._ev({"a": "MultiReset", "out": "ok", "episode": episode, "eobs": s._eobs(r[0])})
        nxt = [1] * len(inst)
        total = sum(len(j) for j in inst)
        nm_i = max(m for job in inst for op in job for m in op["ms"])
        for _ in range(min(total, steps_rng.randint(1, 6))):
            ready = [j for j in range(1, len(inst) + 1) if nxt[j - 1] <= len(inst[j - 1])]
            if steps_rng.random() < fault_prob:
                # invalid decisions that are nevertheless inside the (largest-instance) action space: a machine id
                # beyond this episode's instance, an ineligible one, a finished job
                j = steps_rng.randint(1, len(inst))
                m = steps_rng.choice([nm_i + 1, nm_i + 2, steps_rng.randint(1, nm_i + 1)])
                fin = nxt[j - 1] > len(inst[j - 1])
                if fin or m not in inst[j - 1][nxt[j - 1] - 1]["ms"]:
                    s.env_step(j, m)
            j = steps_rng.choice(ready)
            m = steps_rng.choice(inst[j - 1][nxt[j - 1] - 1]["ms"])
            if s.env_step(j, m) != "ok":
                break
            nxt[j - 1] += 1
        traces.append(s.trace())
    return traces


def c18():
    chk = Check("C18", "model_checking")
    from . import framework
    saved = dict(framework.CONST_DEFAULTS)
    framework.CONST_DEFAULTS.clear()
    try:
        chk.mc("MC_Env_Q.tla", "FSpec",
               {"InstFamily": "<- Fam", "FiltFamily": "<- Filt", "OrderFamily": "<- Ord", "MaxResets": 0,
                "ResetMode": '"deps_first"', "NvecMachines": '"M+1"'},
               ["Inv_C18_LegalInSpace", "Inv_C18_DoneIffNoLegal"], name="C18-action-space")
    finally:
        framework.CONST_DEFAULTS.update(saved)
    rng = random.Random(chk.seed + 18)
    behs, _ = tlc_behaviours("c18", fam="FamA", filt="FiltNone", mode="complete",
                             simulate=f"num={_n(chk, 80, 600)}", workers=4)
    behs_p, _ = tlc_behaviours("c18p", fam="FamP", filt="FiltNone", mode="complete",
                               simulate=f"num={_n(chk, 80, 600)}", workers=4)
    rb = [random_behaviour(rng, max_jobs=4, max_ops=4, max_m=3, durs=(1, 2, 3, 5) if i % 2 else (0, 1, 2))
          for i in range(_n(chk, 60, 600))]
    traces, bmap = [], {}
    for i, b in enumerate(behs + behs_p + rb):
        cfg = random_env_cfg(rng, True)
        traces.append(env_trace(i + 1, b, cfg, rng, episodes=rng.choice([1, 2, 2, 3])))
        bmap[i + 1] = {"behaviour": b, "cfg": cfg}
    chk.monitor(traces, source="single-env-episodes", behaviours=bmap)
    # multi-instance environment: several generator parameter sets, many resets each
    n0 = len(traces) + 1
    gens = [dict(num_jobs=(2, 3), num_machines=(2, 3), duration_range=(1, 5)),
            dict(num_jobs=3, num_machines=2, duration_range=(1, 9)),
            dict(num_jobs=(2, 4), num_machines=(1, 3), duration_range=(1, 3), allow_less_jobs_than_machines=True),
            dict(num_jobs=(2, 3), num_machines=(2, 3), duration_range=(1, 5), machines_per_operation=(1, 2)),
            dict(num_jobs=(2, 3), num_machines=(2, 3), duration_range=(1, 5), allow_recirculation=True)]
    traces = []
    for gi, gk in enumerate(gens):
        for rep in range(_n(chk, 2, 8)):
            cfg = random_env_cfg(rng, True)
            cfg["multi_filter"] = ["dom", "dom", "idle", "immmach", "immops"][(gi + rep) % 5]
            gk2 = dict(gk, seed=chk.seed * 100 + gi * 10 + rep)
            ts = multi_traces(n0, rng, gk2, cfg, resets=_n(chk, 15, 40), steps_rng=rng)
            n0 += len(ts) + 1
            traces.extend(ts)
    chk.monitor(traces, source="multi-env-episodes")
    chk.assumptions.append("use_padding=True configurations only: without padding the observation shapes shrink by design")
    chk.assumptions.append("Gymnasium's Space.contains is the judge of membership; TLC additionally recomputes "
                           "membership of legal actions from the declared nvec/start")
    return chk.finish(
        "TLC: every legal decision of every reachable state lies in MultiDiscrete([J, M+1], start=[0,-1]) (the "
        "[J, M] variant is refuted as a design mutant); traces: single-instance environments over 4 builders x "
        "random feature-observer subsets x 2 rewards x updater options x filters, 1-3 episodes, invalid decisions "
        "injected, decisions of the last episode repeated on a fresh environment; multi-instance environment over "
        "5 generator parameter sets with many resets: observation in declared space, mask/edge index/features equal "
        "graph and observers (padding only at the end), done/truncated/reward, episode configuration = constructor's")


CHECKS = {"C18": c18}


def replay_env(trace, pid):
    from . import tlcio
    if trace.get("env", {}).get("multi"):
        print("multi-environment episodes depend on the generator's random stream; re-run the check to reproduce")
        return {1: [(0, pid + ":not-replayable", "")]}
    new = esession.rerun_env_trace(1, trace)
    new["owner"] = pid
    v, _ = tlcio.monitor("Trace_D.tla", "Trace_D.cfg", f"replay-{pid}", [new], workers=1)
    return v
