"""Shared plumbing: paths, environment, TLC invocation, evidence writing.

The harness never computes an expected value: it drives the real library,
projects real objects onto the abstract state of the TLA+ specification and
hands the recorded traces to TLC, which is the only judge.
"""
from __future__ import annotations

import json
import os
import re
import shutil
import subprocess
import sys
import time
from pathlib import Path

VERIF = Path(__file__).resolve().parent.parent
SPEC = VERIF / "spec"
WORK = VERIF / ".work"
EVIDENCE = VERIF / "evidence"
REPLAY = EVIDENCE / "replay"
# The registered commands always use /repo.  VERIF_REPO exists only so that harness.seedeval can evaluate a seeded
# change in a scratch worktree (with PYTHONPATH pointing at it) while /repo itself stays untouched.
REPO = Path(os.environ.get("VERIF_REPO") or "/repo")

os.environ.setdefault("PYTHONDONTWRITEBYTECODE", "1")
os.environ.setdefault("PYTHONHASHSEED", "0")
os.environ.setdefault("MPLBACKEND", "Agg")
sys.dont_write_bytecode = True


def seed() -> int:
    try:
        return int(os.environ.get("VERIF_SEED", "0"))
    except ValueError:
        return 0


class MachineryError(RuntimeError):
    """The verification machinery itself failed (exit code 2)."""


def assert_repo_import():
    import job_shop_lib  # noqa

    path = Path(job_shop_lib.__file__).resolve()
    if REPO not in path.parents:
        raise MachineryError(f"job_shop_lib imported from {path}, not {REPO}")


def workdir(name: str) -> Path:
    d = WORK / name
    if d.exists():
        shutil.rmtree(d, ignore_errors=True)
    d.mkdir(parents=True, exist_ok=True)
    return d


# ---------------------------------------------------------------------------
# TLC

_STATS = re.compile(
    r"(\d+) states generated, (\d+) distinct states found, (\d+) states left"
)


class TlcResult:
    def __init__(self, rc, out, wall):
        self.rc = rc
        self.out = out
        self.wall = wall
        m = None
        for m in _STATS.finditer(out):
            pass
        self.generated = int(m.group(1)) if m else 0
        self.distinct = int(m.group(2)) if m else 0
        self.left = int(m.group(3)) if m else 0
        self.violated = re.findall(
            r"Error: (?:Invariant|Action property|Temporal property) (\S+) is violated",
            out,
        )
        if "Error: Invariant" in out and not self.violated:
            self.violated = ["?"]
        self.finished_ok = (
            "Model checking completed. No error has been found." in out
        )
        self.errors = [
            ln for ln in out.splitlines() if ln.startswith("Error:")
        ]

    def printed(self, tag: str):
        """Values printed with PrintT(<<tag, ...>>), one per line."""
        pref = '<<"' + tag + '", '
        for ln in self.out.splitlines():
            if ln.startswith(pref) and ln.endswith(">>"):
                yield ln[len(pref): -2]


def run_group(cmd, *, cwd, timeout, env=None):
    """Run an external tool in its own process group and kill the whole group afterwards, whatever happened.
    tlapm leaves back-end provers (z3, zenon with -max-time 1d) running as orphans when an obligation is won by another
    back end or times out; they would burn cores for hours.  Returns (returncode, output); returncode 124 on timeout."""
    import signal
    p = subprocess.Popen(cmd, cwd=str(cwd), env=env, stdout=subprocess.PIPE, stderr=subprocess.STDOUT, text=True,
                         errors="replace", start_new_session=True)
    try:
        out, _ = p.communicate(timeout=timeout)
        rc = p.returncode
    except subprocess.TimeoutExpired:
        try:
            os.killpg(p.pid, signal.SIGKILL)
        except OSError:
            pass
        out, _ = p.communicate()
        out = (out or "") + "\nTIMEOUT"
        rc = 124
    finally:
        try:
            os.killpg(p.pid, signal.SIGKILL)
        except OSError:
            pass
    return rc, out


def run_tlc(
    module: str,
    cfg: str,
    name: str,
    *,
    workers: int | str = 16,
    heap: str = "8g",
    fpmem: str = "0.01",
    timeout: int = 900,
    extra: list[str] | None = None,
    env: dict | None = None,
    cwd: Path | None = None,
) -> TlcResult:
    meta = workdir("tlc-" + name)
    cmd = [
        str(VERIF / "harness" / "tlcrun.sh"),
        str(meta),
        heap,
        fpmem,
        "-workers",
        str(workers),
        "-config",
        cfg,
    ]
    if extra:
        cmd += extra
    cmd.append(module)
    e = dict(os.environ)
    if env:
        e.update(env)
    t0 = time.time()
    rc, out = run_group(cmd, cwd=cwd or SPEC, timeout=timeout, env=e)
    wall = time.time() - t0
    (meta / "tlc.out").write_text(out)
    return TlcResult(rc, out, wall)


def unescape_tla_string(s: str) -> str:
    """TLC prints a string value as "...", with \\" and \\\\ escapes."""
    assert s.startswith('"') and s.endswith('"'), s[:40]
    body = s[1:-1]
    return body.replace('\\"', '"').replace("\\\\", "\\")


# ---------------------------------------------------------------------------
# evidence

def write_evidence(pid: str, data: dict):
    EVIDENCE.mkdir(exist_ok=True)
    (EVIDENCE / f"{pid}.json").write_text(
        json.dumps(data, indent=1, sort_keys=True, default=str) + "\n"
    )


def tier() -> str:
    t = os.environ.get("VERIF_TIER", "quick")
    return t if t in ("quick", "thorough") else "quick"
