from . import dchecks, rchecks, ochecks

CHECKS = {}
REPLAYERS = {}
CHECKS.update(dchecks.CHECKS)
CHECKS.update(rchecks.CHECKS)
CHECKS.update(ochecks.CHECKS)
