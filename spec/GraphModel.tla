----------------------------- MODULE GraphModel -----------------------------
(* C16 (schedule half) and C17 on top of the dispatcher + observer model.    *)
EXTENDS FeatureModel, Graphs

CONSTANTS Builder, RemoveMachines, RemoveJobs
VARIABLE rem                     \* set of removed node ids of the residual graph
gvars == <<fvars, rem>>

P0 == GraphPairs(Builder, inst)
N0 == Len(GraphNodes(Builder, inst))
HasMachNodes == Builder # "disjunctive"
HasJobNodes == Builder \in {"agent_task_with_jobs", "complete_agent_task"}

(* the IsCompleted observer the updater created/found at construction *)
CompletedRec(L) == L[FirstIdx(L, LAMBDA x : x.t = "IsCompletedObserver")]
ExplicitRemovals(I, st, L) ==
    {NodeOfOp(I, o) : o \in CompletedOps(I, st, filt)}
    \cup (IF RemoveMachines /\ HasMachNodes
          THEN {NodeOfMachine(I, m) : m \in {x \in Machines(I) : CompletedRec(L).f[MACH][x][1] = 1}} ELSE {})
    \cup (IF RemoveJobs /\ HasJobNodes
          THEN {NodeOfJob(I, j) : j \in {x \in Jobs(I) : CompletedRec(L).f[JOBS][x][1] = 1}} ELSE {})

GInit == FInit /\ rem = {}
GBegin == FBegin /\ UNCHANGED rem
GDispatch == \E j \in Jobs(inst) : \E m \in Machines(inst) :
    /\ s.nxt[j] <= JobLen(inst, j) /\ FDispatch(j, m)
    /\ rem' = ResidualAfter(P0, N0, rem, ExplicitRemovals(inst, s', obs'))
GReset == FReset /\ rem' = {}
GNext == GBegin \/ GDispatch \/ GReset
GSpec == GInit /\ [][GNext]_gvars

RemOps == {AllOpsSeq(inst)[n] : n \in {k \in rem : k <= NumOps(inst)}}
Inv_C17_Ops == started => /\ CompletedOps(inst, s, filt) \subseteq RemOps
                          /\ RemOps \subseteq ScheduledOps(s.sched)
Inv_C17_MachinesJobs ==
    started =>
       /\ HasMachNodes => \A m \in Machines(inst) : NodeOfMachine(inst, m) \in rem =>
              \A o \in AllOps(inst) : m \in MSet(inst, o) => o \in ScheduledOps(s.sched)
       /\ HasJobNodes => \A j \in Jobs(inst) : NodeOfJob(inst, j) \in rem => s.nxt[j] > Len(inst[j])
Inv_C17_AllRemovedAtEnd ==
    (started /\ Complete(inst, s.sched) /\ RemoveMachines /\ RemoveJobs
       /\ \A m \in Machines(inst) : \E o \in AllOps(inst) : m \in MSet(inst, o))
    => rem = 1..N0
(* C16: the solved disjunctive graph of a dispatcher-built schedule *)
Inv_C16_Solved ==
    (started /\ Complete(inst, s.sched) /\ PositiveDurations(inst)) =>
        LET SP == SolvedPairs(inst, s.sched) IN
        /\ Acyclic(SP, NumOps(inst) + 2)
        /\ LongestPath(inst, SP) = Makespan(inst, s.sched)
=============================================================================
