#!/bin/bash
# Offline setup: verify tools and parse every specification module with SANY.
cd "$(dirname "$(readlink -f "$0")")" || exit 2
set -e
java -version 2>&1 | head -1
test -f /opt/veriftools/tla/tla2tools.jar
/venv/bin/python -c "import job_shop_lib, pathlib; p=pathlib.Path(job_shop_lib.__file__).resolve(); assert str(p).startswith('/repo/'), p; print('job_shop_lib from', p)"
mkdir -p .work evidence
(tlapm --version 2>&1 | head -1; apalache-mc version 2>&1 | tail -1) || true
cd spec
fail=0
for f in *.tla; do
  if ! java -cp /opt/veriftools/tla/tla2tools.jar:/opt/veriftools/tla/CommunityModules-deps.jar tla2sany.SANY "$f" > ../.work/sany.out 2>&1 || grep -q "Could not parse\|\*\*\* Errors\|Fatal errors" ../.work/sany.out; then
    echo "SANY failed on $f"; tail -20 ../.work/sany.out; fail=1
  fi
done
[ $fail = 0 ] && echo "setup ok: $(ls *.tla | wc -l) TLA+ modules parse"
exit $fail
