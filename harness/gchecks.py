"""Checks for the graph properties C16, C17."""
from __future__ import annotations

import random

from . import dsession
from .framework import Check
from .ochecks import _mc as _feat_mc, feature_trace, random_creations
from .scenarios import random_behaviour, random_instance, tlc_behaviours

BUILDERS = ["disjunctive", "agent_task", "agent_task_with_jobs", "complete_agent_task"]


def _n(chk, quick, thorough):
    return min(thorough, 5 * quick) if chk.tier == "thorough" else quick   # thorough is capped at 5x quick: every tier must finish well inside its timeout on a shared machine


def _gmc(chk, invariants, name, builder, rm_m=True, rm_j=True, **over):
    from . import framework
    c = {"InstFamily": "<- Fam", "FiltFamily": "<- Filt", "OrderFamily": "<- Ord", "MaxResets": 1,
         "ResetMode": '"deps_first"', "Builder": f'"{builder}"', "RemoveMachines": "TRUE" if rm_m else "FALSE",
         "RemoveJobs": "TRUE" if rm_j else "FALSE"}
    c.update(over)
    mod = "MC_Graph_T.tla" if chk.tier == "thorough" else "MC_Graph_Q.tla"
    saved = dict(framework.CONST_DEFAULTS)
    framework.CONST_DEFAULTS.clear()
    try:
        return chk.mc(mod, "GSpec", c, invariants, name=name, timeout=3000)
    finally:
        framework.CONST_DEFAULTS.update(saved)


def c16():
    chk = Check("C16", "model_checking")
    _gmc(chk, ["Inv_C16_Solved"], "C16-solved", "disjunctive", MaxResets=0)
    rng = random.Random(chk.seed + 16)
    behs, _ = tlc_behaviours("c16", fam="FamA", filt="FiltB", mode="complete",
                             simulate=f"num={_n(chk, 200, 1500)}", workers=4)
    behs2, _ = tlc_behaviours("c16p", fam="FamP", filt="FiltB", mode="complete",
                              simulate=f"num={_n(chk, 150, 1500)}", workers=4)
    rb = [random_behaviour(rng, max_jobs=4, max_ops=4, max_m=4,
                           durs=(1, 2, 3, 5) if i % 3 else (0, 1, 2)) for i in range(_n(chk, 100, 1000))]
    traces = []
    for i, b in enumerate(behs + behs2 + rb):
        s = dsession.DSession(i + 1, b["inst"], b["filt"], ())
        for bd in BUILDERS:
            s.graph_event(bd)
        for a in b["hist"]:
            if a["a"] == "D":
                s.dispatch(a["j"], a["p"], a["m"])
        if s.dispatcher.schedule.is_complete():
            s.solved_event("dispatcher")
            if not s.instance.is_flexible and i % 3 == 0:
                s.solved_event("cpsat")
        traces.append(s.trace())
    chk.monitor(traces, source="builders+solved-graphs")
    return chk.finish(
        "TLC: the solved disjunctive graph of every dispatcher-built complete schedule of the family is acyclic "
        "and its longest duration-weighted path equals the makespan; traces: the five builders on TLC-family and "
        "random instances (flexible, recirculation, irregular jobs, unused machine ids): node list and typed edge "
        "set compared with the definitions; solved graphs of dispatcher-built and CP-SAT (not semi-active) "
        "schedules: acyclic, longest path <= makespan, = for dispatcher-built")


def residual_trace(tid, beh, rng, builder, rm_m, rm_j):
    cr = [("ResidualGraphUpdater", (builder, rm_m, rm_j))]
    if rng.random() < 0.5:
        extra = random_creations(rng, composite=False)
        pos = rng.randint(0, len(extra))
        cr = extra[:pos] + cr + extra[pos:]
    s = dsession.DSession(tid, beh["inst"], beh["filt"], ())
    made = []
    for (t, a) in cr:
        out = s.create_graph_updater(*a) if t == "ResidualGraphUpdater" else s.create_builtin(t, a)
        if out == "ok":
            made.append((t, a))
    s.header["featcheck"] = True
    s.header["fresh_obs"] = s.post()["obs"]
    since = []
    for a in beh["hist"]:
        if a["a"] == "D":
            if s.dispatch(a["j"], a["p"], a["m"], none=bool(a.get("none", False))) == "ok":
                since.append(a)
        elif a["a"] == "R":
            s.dispatch(a["j"], a["p"], a["m"])
        elif a["a"] == "Reset":
            s.reset()
            since = []
    s.fresh_run(made, since)
    return s.trace()


def c17():
    chk = Check("C17", "model_checking")
    invs = ["Inv_C17_Ops", "Inv_C17_MachinesJobs", "Inv_C17_AllRemovedAtEnd"]
    combos = [("complete_agent_task", True, True), ("disjunctive", True, True)]
    if chk.tier == "thorough":
        combos += [("agent_task", True, True), ("agent_task_with_jobs", True, True),
                   ("agent_task_with_jobs", False, True), ("complete_agent_task", True, False)]
    for (b, m, j) in combos:
        _gmc(chk, invs, f"C17-{b}-{int(m)}{int(j)}", b, m, j)
    rng = random.Random(chk.seed + 17)
    behs, _ = tlc_behaviours("c17", fam="FamP", filt="FiltB", mode="complete", resets=1,
                             simulate=f"num={_n(chk, 250, 2500)}", workers=4, depth=60)
    rb = [random_behaviour(rng, resets=0.03, max_jobs=4, max_ops=4, max_m=3, durs=(1, 2, 3, 5))
          for _ in range(_n(chk, 100, 1000))]
    traces = []
    for i, b in enumerate(behs + rb):
        bd = BUILDERS[i % 4]
        rm_m, rm_j = (True, True) if i % 5 else (bool(rng.getrandbits(1)), bool(rng.getrandbits(1)))
        traces.append(residual_trace(i + 1, b, rng, bd, rm_m, rm_j))
    chk.monitor(traces, source="residual-updater-4-builders")
    # an updater constructed detached and subscribed by hand after some dispatches: from its first notification
    # on, the graph must be what it would be had it listened all along
    traces = []
    for i, b in enumerate((rb + behs)[: _n(chk, 60, 400)]):
        s = dsession.DSession(50000 + i, b["inst"], b["filt"], ())
        acts = [a for a in b["hist"] if a["a"] == "D"]
        if s.create_graph_updater(BUILDERS[i % 4], True, True, subscribe=False) != "ok":
            continue
        s.header["featcheck"] = True
        cut = rng.randint(1, max(1, len(acts) - 1))
        for k, a in enumerate(acts):
            if k == cut:
                s.subscribe_builtin(len(s.extra) - 1)
            s.dispatch(a["j"], a["p"], a["m"])
        traces.append(s.trace())
    chk.monitor(traces, source="residual-updater-subscribed-late")
    return chk.finish(
        "TLC: removed operation nodes between completed and scheduled, machine/job nodes removed only when all "
        "their operations are scheduled, everything removed at the end (default options, every machine used), "
        "for each builder over the family incl. second episodes; traces: the real ResidualGraphUpdater on the "
        "four builders (random options, other observers around it, resets): removed mask, node set and edge list "
        "after every call judged by the monitor")


CHECKS = {"C16": c16, "C17": c17}
