--------------------------- MODULE DispatcherInd ---------------------------
(***************************************************************************)
(* An array-shaped restatement of the dispatch step of Dispatcher.tla for  *)
(* Apalache: 3 jobs x 3 operations on 3 machines, but ARBITRARY natural    *)
(* durations and ARBITRARY non-empty sets of eligible machines (symbolic   *)
(* constants constrained by ConstInit).  IndInv is an inductive invariant: *)
(*   Init => IndInv              (length 0)                                *)
(*   IndInv /\ Next => IndInv'   (IndInit = IndInv as initial predicate,   *)
(*                                length 1)                                *)
(* and it contains the feasibility (C01) and bookkeeping (C02) clauses, so *)
(* they hold after ANY number of dispatches for every instance of this     *)
(* shape - complementing TLC, which is exhaustive for durations {0,1,2}.   *)
(* Positions a job does not have are modelled by len[j] <= K.              *)
(***************************************************************************)
EXTENDS Integers

CONSTANTS
    \* @type: <<Int, Int>> -> Int;
    dur,
    \* @type: <<Int, Int>> -> Set(Int);
    elig,
    \* @type: Int -> Int;
    len

NJ == 3
K == 3
NM == 3
J == 1..NJ
P == 1..K
M == 1..NM

VARIABLES
    \* @type: Int -> Int;
    nxt,
    \* @type: <<Int, Int>> -> Int;
    st,
    \* @type: <<Int, Int>> -> Int;
    mc,
    \* @type: Int -> Int;
    jfree,
    \* @type: Int -> Int;
    mfree

ConstInit ==
    /\ dur \in [J \X P -> Nat]
    /\ elig \in [J \X P -> SUBSET M]
    /\ len \in [J -> 1..K]
    /\ \A x \in J \X P : elig[x] # {}

Max2(a, b) == IF a >= b THEN a ELSE b
End(j, p) == st[<<j, p>>] + dur[<<j, p>>]
Sched(j, p) == p < nxt[j]

Init ==
    /\ nxt = [j \in J |-> 1]
    /\ st = [x \in J \X P |-> 0]
    /\ mc = [x \in J \X P |-> 1]
    /\ jfree = [j \in J |-> 0]
    /\ mfree = [m \in M |-> 0]

Dispatch(j, m) ==
    LET p == nxt[j]
        s == Max2(mfree[m], jfree[j])
        e == s + dur[<<j, p>>]
    IN /\ p <= len[j]
       /\ m \in elig[<<j, p>>]
       /\ st' = [st EXCEPT ![<<j, p>>] = s]
       /\ mc' = [mc EXCEPT ![<<j, p>>] = m]
       /\ nxt' = [nxt EXCEPT ![j] = p + 1]
       /\ jfree' = [jfree EXCEPT ![j] = e]
       /\ mfree' = [mfree EXCEPT ![m] = e]

Next == \E j \in J : \E m \in M : Dispatch(j, m)

TypeOK ==
    /\ nxt \in [J -> 1..(K + 1)]
    /\ st \in [J \X P -> Int]
    /\ mc \in [J \X P -> M]
    /\ jfree \in [J -> Int]
    /\ mfree \in [M -> Int]

(* C01: feasibility of the schedule held so far *)
Feasible ==
    /\ \A j \in J : nxt[j] <= len[j] + 1
    /\ \A j \in J : \A p \in P : Sched(j, p) =>
          /\ st[<<j, p>>] >= 0
          /\ mc[<<j, p>>] \in elig[<<j, p>>]
    /\ \A j \in J : \A p \in P : (Sched(j, p) /\ p > 1) => End(j, p - 1) <= st[<<j, p>>]
    /\ \A j1 \in J : \A p1 \in P : \A j2 \in J : \A p2 \in P :
          (Sched(j1, p1) /\ Sched(j2, p2) /\ (j1 # j2 \/ p1 # p2) /\ mc[<<j1, p1>>] = mc[<<j2, p2>>])
          => (End(j1, p1) <= st[<<j2, p2>>] \/ End(j2, p2) <= st[<<j1, p1>>])
(* C02: the bookkeeping is what the schedule implies *)
Tracking ==
    /\ \A j \in J : jfree[j] = IF nxt[j] = 1 THEN 0 ELSE End(j, nxt[j] - 1)
    /\ \A m \in M :
          /\ mfree[m] >= 0
          /\ \A j \in J : \A p \in P : (Sched(j, p) /\ mc[<<j, p>>] = m) => End(j, p) <= mfree[m]
          /\ \/ (mfree[m] = 0 /\ \A j \in J : \A p \in P : (Sched(j, p) /\ mc[<<j, p>>] = m) => End(j, p) = 0)
             \/ \E j \in J : \E p \in P : Sched(j, p) /\ mc[<<j, p>>] = m /\ End(j, p) = mfree[m]

IndInv == TypeOK /\ Feasible /\ Tracking
IndInit == IndInv
=============================================================================
