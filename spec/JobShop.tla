------------------------------ MODULE JobShop ------------------------------
(***************************************************************************)
(* Pure (state-free) part of the specification of job_shop_lib:            *)
(*   - instances as values and their derived views          (C14)          *)
(*   - dispatcher state records, the dispatch step          (C01, C02)     *)
(*   - feasibility and the tracking implied by a schedule   (C01, C02)     *)
(*   - the state queries, as definitions                    (C05, C06)     *)
(*   - the four ready-operation filters and composition     (C07)          *)
(*   - optimum over all (filtered) dispatch histories       (C03,C04,C08)  *)
(*                                                                         *)
(* Conventions: jobs, positions, machines are 1-based here (the Python     *)
(* projection adds 1 once); times are naturals.  An operation is a pair    *)
(* <<j, p>>; a schedule entry is a triple <<j, p, start>>.                  *)
(* An instance I is Seq(Seq([ms : Seq(1..M), d : Nat])).                    *)
(* A dispatcher state s is [sched, nxt, jfree, mfree].                     *)
(***************************************************************************)
EXTENDS Integers, Sequences, FiniteSets, TLC

-----------------------------------------------------------------------------
(* generic helpers *)
MaxOf(S) == CHOOSE x \in S : \A y \in S : y <= x
MinOf(S) == CHOOSE x \in S : \A y \in S : x <= y
Max2(a, b) == IF a >= b THEN a ELSE b
Min2(a, b) == IF a <= b THEN a ELSE b
MaxOr0(S) == IF S = {} THEN 0 ELSE MaxOf(S)
Rng(s) == {s[i] : i \in DOMAIN s}
NoDup(s) == \A i, k \in DOMAIN s : i # k => s[i] # s[k]
(* the sequence s enumerates the finite set S, each element exactly once *)
SameBag(s, S) == NoDup(s) /\ Rng(s) = S
RECURSIVE SumSeq(_)
SumSeq(s) == IF s = <<>> THEN 0 ELSE Head(s) + SumSeq(Tail(s))
RECURSIVE SumOver(_, _)
SumOver(S, f) == IF S = {} THEN 0
                 ELSE LET x == CHOOSE y \in S : TRUE IN f[x] + SumOver(S \ {x}, f)
RECURSIVE IsSubSeqOf(_, _)
(* a is obtained from b by deleting elements (order kept) *)
IsSubSeqOf(a, b) == IF a = <<>> THEN TRUE
                    ELSE IF b = <<>> THEN FALSE
                    ELSE IF Head(a) = Head(b) THEN IsSubSeqOf(Tail(a), Tail(b))
                    ELSE IsSubSeqOf(a, Tail(b))
(* every sub-list (order kept) of a sequence *)
PickIdx(q, S) == LET RECURSIVE pick(_)
                     pick(i) == IF i > Len(q) THEN <<>>
                                ELSE (IF i \in S THEN <<q[i]>> ELSE <<>>) \o pick(i + 1)
                 IN pick(1)
SubListsOf(q) == {PickIdx(q, S) : S \in SUBSET (DOMAIN q)}
RECURSIVE Concat(_)
Concat(ss) == IF ss = <<>> THEN <<>> ELSE Head(ss) \o Concat(Tail(ss))
IsPrefixOf(a, b) == Len(a) <= Len(b) /\ SubSeq(b, 1, Len(a)) = a

-----------------------------------------------------------------------------
(* Instances and their views (C14: these ARE the definitions) *)
Jobs(I) == 1..Len(I)
JobLen(I, j) == Len(I[j])
AllOps(I) == UNION {{<<j, p>> : p \in 1..Len(I[j])} : j \in 1..Len(I)}
Op(I, o) == I[o[1]][o[2]]
MSet(I, o) == Rng(Op(I, o).ms)
Dur(I, o) == Op(I, o).d
NM(I) == MaxOr0(UNION {MSet(I, o) : o \in AllOps(I)})
Machines(I) == 1..NM(I)
NumOps(I) == SumSeq([j \in 1..Len(I) |-> Len(I[j])])
OpsBefore(I, j) == SumSeq([k \in 1..(j - 1) |-> Len(I[k])])
OpId(I, o) == OpsBefore(I, o[1]) + o[2]          \* dense, job-major, 1-based
IsFlexible(I) == \E o \in AllOps(I) : Len(Op(I, o).ms) > 1
JobOps(I, j) == [p \in 1..Len(I[j]) |-> <<j, p>>]
AllOpsSeq(I) == Concat([j \in 1..Len(I) |-> JobOps(I, j)])      \* job-major
OpsByMachine(I, m) == SelectSeq(AllOpsSeq(I), LAMBDA o : m \in MSet(I, o))
JobDuration(I, j) == SumSeq([p \in 1..Len(I[j]) |-> I[j][p].d])
MachineLoad(I, m) == LET L == OpsByMachine(I, m)
                     IN SumSeq([i \in 1..Len(L) |-> Dur(I, L[i])])
TotalDuration(I) == SumSeq([j \in 1..Len(I) |-> JobDuration(I, j)])
MaxDuration(I) == MaxOr0({Dur(I, o) : o \in AllOps(I)})
MaxDurationPerJob(I, j) == MaxOr0({I[j][p].d : p \in 1..Len(I[j])})
MaxDurationPerMachine(I, m) == MaxOr0({Dur(I, o) : o \in {x \in AllOps(I) : m \in MSet(I, x)}})
MaxJobLen(I) == MaxOr0({Len(I[j]) : j \in 1..Len(I)})
PositiveDurations(I) == \A o \in AllOps(I) : Dur(I, o) > 0
WellFormed(I) == /\ Len(I) >= 1
                 /\ \A j \in 1..Len(I) : Len(I[j]) >= 1
                 /\ \A o \in AllOps(I) : Len(Op(I, o).ms) >= 1 /\ NoDup(Op(I, o).ms)

-----------------------------------------------------------------------------
(* Dispatcher states *)
InitState(I) == [sched |-> [m \in Machines(I) |-> <<>>],
                 nxt   |-> [j \in Jobs(I) |-> 1],
                 jfree |-> [j \in Jobs(I) |-> 0],
                 mfree |-> [m \in Machines(I) |-> 0]]

EOp(e) == <<e[1], e[2]>>
EEnd(I, e) == e[3] + Dur(I, EOp(e))
AllE(sched) == UNION {Rng(sched[m]) : m \in DOMAIN sched}
NumScheduled(sched) == SumSeq([m \in DOMAIN sched |-> Len(sched[m])])
ScheduledOps(sched) == {EOp(e) : e \in AllE(sched)}
LastEnd(I, sched, m) == IF sched[m] = <<>> THEN 0 ELSE EEnd(I, sched[m][Len(sched[m])])
(* the code's makespan: latest end among the LAST entries of the machines *)
Makespan(I, sched) == MaxOr0({LastEnd(I, sched, m) : m \in DOMAIN sched})
(* the definitional makespan: latest end of anything *)
MakespanDef(I, sched) == MaxOr0({EEnd(I, e) : e \in AllE(sched)})
Complete(I, sched) == ScheduledOps(sched) = AllOps(I)

(* what a request must satisfy to be accepted (C09) *)
ValidRequest(I, s, j, p, m) ==
    /\ j \in Jobs(I) /\ p \in 1..JobLen(I, j)
    /\ s.nxt[j] = p
    /\ m \in MSet(I, <<j, p>>)

StartTime(s, j, m) == Max2(s.mfree[m], s.jfree[j])

(* the accepted dispatch of the next operation of job j on machine m *)
DispatchNext(I, s, j, m) ==
    LET p  == s.nxt[j]
        st == StartTime(s, j, m)
        en == st + Dur(I, <<j, p>>)
    IN [sched |-> [s.sched EXCEPT ![m] = Append(@, <<j, p, st>>)],
        nxt   |-> [s.nxt EXCEPT ![j] = p + 1],
        jfree |-> [s.jfree EXCEPT ![j] = en],
        mfree |-> [s.mfree EXCEPT ![m] = en]]

-----------------------------------------------------------------------------
(* a schedule value that only mentions operations and machines of I (so that   *)
(* the operators below are defined on it)                                      *)
WellTypedSchedule(I, sched) ==
    /\ DOMAIN sched = Machines(I)
    /\ \A m \in DOMAIN sched : \A i \in DOMAIN sched[m] : EOp(sched[m][i]) \in AllOps(I)

WellTypedState(I, c) ==
    /\ WellTypedSchedule(I, c.sched)
    /\ DOMAIN c.nxt = Jobs(I) /\ DOMAIN c.jfree = Jobs(I) /\ DOMAIN c.mfree = Machines(I)
    /\ \A j \in Jobs(I) : c.nxt[j] \in 1..(Len(I[j]) + 1)

(* C01: feasibility of a (partial) schedule *)
Feasible(I, sched) ==
    /\ DOMAIN sched = Machines(I)
    /\ \A m \in DOMAIN sched : \A i \in 1..Len(sched[m]) :
          LET e == sched[m][i] IN
          /\ EOp(e) \in AllOps(I)
          /\ m \in MSet(I, EOp(e))                       \* eligible machine
          /\ e[3] >= 0
          /\ i > 1 => EEnd(I, sched[m][i - 1]) <= e[3]   \* time order, no overlap
    /\ \A m1, m2 \in DOMAIN sched : \A i1 \in 1..Len(sched[m1]) : \A i2 \in 1..Len(sched[m2]) :
          (<<m1, i1>> # <<m2, i2>>) => EOp(sched[m1][i1]) # EOp(sched[m2][i2])   \* at most once
    /\ \A e1, e2 \in AllE(sched) :
          (e1[1] = e2[1] /\ e1[2] < e2[2]) => EEnd(I, e1) <= e2[3]               \* job order
    /\ \A e \in AllE(sched) :
          e[2] > 1 => \E e0 \in AllE(sched) : e0[1] = e[1] /\ e0[2] = e[2] - 1   \* predecessors first

(* C02: the bookkeeping implied by a schedule *)
DerivedNxt(I, sched) == [j \in Jobs(I) |-> 1 + Cardinality({e \in AllE(sched) : e[1] = j})]
DerivedJFree(I, sched) == [j \in Jobs(I) |-> MaxOr0({EEnd(I, e) : e \in {x \in AllE(sched) : x[1] = j}})]
DerivedMFree(I, sched) == [m \in Machines(I) |-> LastEnd(I, sched, m)]
TrackingOK(I, s) == /\ s.nxt = DerivedNxt(I, s.sched)
                    /\ s.jfree = DerivedJFree(I, s.sched)
                    /\ s.mfree = DerivedMFree(I, s.sched)
(* the forced start of entry i on machine m, from the rest of the schedule *)
ForcedStart(I, sched, m, i) ==
    LET e == sched[m][i]
        predEnd == IF e[2] = 1 THEN 0
                   ELSE MaxOr0({EEnd(I, x) : x \in {y \in AllE(sched) : y[1] = e[1] /\ y[2] = e[2] - 1}})
        machEnd == IF i = 1 THEN 0 ELSE EEnd(I, sched[m][i - 1])
    IN Max2(predEnd, machEnd)
SemiActive(I, sched) == \A m \in DOMAIN sched : \A i \in 1..Len(sched[m]) :
                            sched[m][i][3] = ForcedStart(I, sched, m, i)

-----------------------------------------------------------------------------
(* C07: ready-operation filters.  L is a sequence of operations <<j,p>>.   *)
Start(s, o, m) == Max2(s.mfree[m], s.jfree[o[1]])
MinStart(I, s, L) ==
    IF L = <<>> THEN Makespan(I, s.sched)
    ELSE MinOf(UNION {{Start(s, L[i], m) : m \in MSet(I, L[i])} : i \in DOMAIN L})
EarliestStart(I, s, o) == Max2(MinOf({s.mfree[m] : m \in MSet(I, o)}), s.jfree[o[1]])

(* keeps operations having an eligible machine on which nothing is still
   running at the earliest start time of L *)
FilterNonIdle(I, s, L) ==
    LET ct == MinStart(I, s, L)
    IN SelectSeq(L, LAMBDA o : \E m \in MSet(I, o) : LastEnd(I, s.sched, m) <= ct)
(* keeps operations that can themselves start at the earliest start time *)
FilterNonImmediateOps(I, s, L) ==
    LET ct == MinStart(I, s, L)
    IN SelectSeq(L, LAMBDA o : EarliestStart(I, s, o) = ct)
(* keeps operations sharing a machine with one that can start at that time *)
FilterNonImmediateMachines(I, s, L) ==
    LET ct == MinStart(I, s, L)
        imm(m) == \E i \in DOMAIN L : m \in MSet(I, L[i]) /\ Start(s, L[i], m) = ct
    IN SelectSeq(L, LAMBDA o : \E m \in MSet(I, o) : imm(m))
(* keeps non-dominated operations: start on some eligible machine before the
   earliest completion there; documented shortcut: the first zero-duration
   operation is returned alone *)
MinEndOn(I, s, L, m) ==
    MinOf({Start(s, L[i], m) + Dur(I, L[i]) : i \in {k \in DOMAIN L : m \in MSet(I, L[k])}})
FilterDominated(I, s, L) ==
    LET zeros == {i \in DOMAIN L : Dur(I, L[i]) = 0}
    IN IF zeros # {} THEN << L[MinOf(zeros)] >>
       ELSE SelectSeq(L, LAMBDA o : \E m \in MSet(I, o) : Start(s, o, m) < MinEndOn(I, s, L, m))

FilterNames == {"dom", "idle", "immops", "immmach"}
ApplyFilter(I, s, f, L) ==
    CASE f = "dom"     -> FilterDominated(I, s, L)
      [] f = "idle"    -> FilterNonIdle(I, s, L)
      [] f = "immops"  -> FilterNonImmediateOps(I, s, L)
      [] f = "immmach" -> FilterNonImmediateMachines(I, s, L)
RECURSIVE ApplyFilters(_, _, _, _)
ApplyFilters(I, s, F, L) ==       \* left to right, each on the previous output
    IF F = <<>> THEN L ELSE ApplyFilters(I, s, Tail(F), ApplyFilter(I, s, Head(F), L))

-----------------------------------------------------------------------------
(* C05/C06: the queries, as definitions over (I, s, F) *)
RawReady(I, s) == LET idx == SelectSeq([j \in 1..Len(I) |-> j], LAMBDA j : s.nxt[j] <= Len(I[j]))
                  IN [i \in 1..Len(idx) |-> <<idx[i], s.nxt[idx[i]]>>]
Avail(I, s, F) == ApplyFilters(I, s, F, RawReady(I, s))
Now(I, s, F) == MinStart(I, s, Avail(I, s, F))
UnscheduledOps(I, sched) == AllOps(I) \ ScheduledOps(sched)
OngoingE(I, s, F) == {e \in AllE(s.sched) : EEnd(I, e) > Now(I, s, F)}
OngoingOps(I, s, F) == {EOp(e) : e \in OngoingE(I, s, F)}
CompletedOps(I, s, F) == ScheduledOps(s.sched) \ OngoingOps(I, s, F)
UncompletedOps(I, s, F) == UnscheduledOps(I, s.sched) \cup OngoingOps(I, s, F)
AvailMachines(I, s, F) == LET A == Avail(I, s, F) IN UNION {MSet(I, A[i]) : i \in DOMAIN A}
AvailJobs(I, s, F) == LET A == Avail(I, s, F) IN {A[i][1] : i \in DOMAIN A}

(* the ten memoised queries, in the order the code produces their results  *)
(* (order matters only for available/raw-ready; the binding compares the   *)
(* others as bags)                                                          *)
QueryNames == {"current_time", "available_operations", "raw_ready_operations",
               "unscheduled_operations", "scheduled_operations",
               "available_machines", "available_jobs", "completed_operations",
               "uncompleted_operations", "ongoing_operations"}
UnscheduledSeq(I, s) == SelectSeq(AllOpsSeq(I), LAMBDA o : o[2] >= s.nxt[o[1]])
ScheduledSeq(I, s) == SelectSeq(AllOpsSeq(I), LAMBDA o : o[2] < s.nxt[o[1]])
RECURSIVE RevSeq(_)
RevSeq(q) == IF q = <<>> THEN <<>> ELSE Append(RevSeq(Tail(q)), Head(q))
OngoingSeq(I, s, F) ==   \* per machine, latest first, as the code walks them
    LET now == Now(I, s, F)
    IN Concat([m \in DOMAIN s.sched |->
                 SelectSeq(RevSeq(s.sched[m]), LAMBDA e : EEnd(I, e) > now)])
SetAsSeq(S) == IF S = {} THEN <<>> ELSE
               LET RECURSIVE build(_)
                   build(T) == IF T = {} THEN <<>>
                               ELSE LET x == MinOf(T) IN <<x>> \o build(T \ {x})
               IN build(S)
QueryValue(I, s, F, q) ==
    CASE q = "current_time"            -> Now(I, s, F)
      [] q = "available_operations"    -> Avail(I, s, F)
      [] q = "raw_ready_operations"    -> RawReady(I, s)
      [] q = "unscheduled_operations"  -> UnscheduledSeq(I, s)
      [] q = "scheduled_operations"    -> ScheduledSeq(I, s)
      [] q = "available_machines"      -> SetAsSeq(AvailMachines(I, s, F))
      [] q = "available_jobs"          -> SetAsSeq(AvailJobs(I, s, F))
      [] q = "completed_operations"    -> SelectSeq(ScheduledSeq(I, s), LAMBDA o : o \in CompletedOps(I, s, F))
      [] q = "uncompleted_operations"  ->
            LET og == OngoingSeq(I, s, F)
            IN UnscheduledSeq(I, s) \o [i \in 1..Len(og) |-> EOp(og[i])]
      [] q = "ongoing_operations"      -> OngoingSeq(I, s, F)
(* which other memoised queries a query evaluates (and therefore memoises) *)
Callees(q) ==
    CASE q = "current_time"           -> {"available_operations"}
      [] q = "available_operations"   -> {"raw_ready_operations"}
      [] q = "available_machines"     -> {"available_operations"}
      [] q = "available_jobs"         -> {"available_operations"}
      [] q = "ongoing_operations"     -> {"current_time"}
      [] q = "completed_operations"   -> {"scheduled_operations", "ongoing_operations"}
      [] q = "uncompleted_operations" -> {"unscheduled_operations", "ongoing_operations"}
      [] OTHER -> {}
RECURSIVE CallClosure(_)
CallClosure(q) == {q} \cup UNION {CallClosure(c) : c \in Callees(q)}

-----------------------------------------------------------------------------
(* C03/C04/C08: optimum over all dispatch histories that only pick          *)
(* operations surviving the filter composition F (F = <<>>: all histories). *)
Infinity == 2000000000     \* above every makespan the checks produce (TLC integers are 32-bit)
RECURSIVE OptFrom(_, _, _)
OptFrom(I, s, F) ==
    LET A == Avail(I, s, F)
    IN IF RawReady(I, s) = <<>> THEN Makespan(I, s.sched)
       ELSE IF A = <<>> THEN Infinity           \* a filter deadlock is never optimal
       ELSE MinOf(UNION {{OptFrom(I, DispatchNext(I, s, A[i][1], m), F) : m \in MSet(I, A[i])}
                         : i \in DOMAIN A})
OptVia(I, F) == OptFrom(I, InitState(I), F)
Opt(I) == OptVia(I, <<>>)
LowerBound(I) == Max2(MaxOr0({JobDuration(I, j) : j \in Jobs(I)}),
                      IF IsFlexible(I) THEN 0
                      ELSE MaxOr0({MachineLoad(I, m) : m \in Machines(I)}))

-----------------------------------------------------------------------------
(* C10: observer classes known to the specification of the subscriber list. *)
(* "hist" = HistoryObserver (singleton), "histsub" = a subclass of it,       *)
(* "rec" = a non-singleton user observer.                                    *)
IsSingletonKind(k) == k \in {"hist", "histsub"}
IsInstanceOf(k, cls) == k = cls \/ (k = "histsub" /\ cls = "hist")
(* constructing an observer of kind k while `subsKinds` are subscribed is    *)
(* refused iff k is a singleton class and some subscriber is an instance of k *)
SingletonConflict(subsKinds, k) ==
    IsSingletonKind(k) /\ \E i \in DOMAIN subsKinds : IsInstanceOf(subsKinds[i], k)
(* create_or_get_observer(cls): index of the first subscriber that is an     *)
(* instance of cls, 0 if none                                                *)
FirstInstanceIdx(subsKinds, cls) ==
    LET hits == {i \in DOMAIN subsKinds : IsInstanceOf(subsKinds[i], cls)}
    IN IF hits = {} THEN 0 ELSE MinOf(hits)
=============================================================================
