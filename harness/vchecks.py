"""Check for C20 (Gantt charts and animation frames)."""
from __future__ import annotations

import os
import random
import shutil
import tempfile

import numpy as np

from . import dsession, model
from .dsession import _outcome
from .framework import Check
from .scenarios import random_behaviour, tlc_behaviours


def _n(chk, quick, thorough):
    return min(thorough, 5 * quick) if chk.tier == "thorough" else quick   # thorough is capped at 5x quick: every tier must finish well inside its timeout on a shared machine


def plot_event(s, schedule, req_xlim=0):
    """Draw the real Gantt chart and read back what was drawn."""
    import matplotlib
    matplotlib.use("Agg")
    import matplotlib.pyplot as plt
    from matplotlib.collections import PolyCollection
    from job_shop_lib.visualization import plot_gantt_chart
    from job_shop_lib.visualization import _plot_gantt_chart as P

    def read(ax):
        colours = {}

        def cid(rgba):
            key = tuple(round(float(c), 4) for c in rgba)
            return colours.setdefault(key, len(colours) + 1)

        bars = []
        base, inc = P._BASE_Y_POSITION, P._Y_POSITION_INCREMENT  # pylint: disable=protected-access
        for coll in ax.collections:
            if not isinstance(coll, PolyCollection):
                continue
            fc = coll.get_facecolor()
            for k, path in enumerate(coll.get_paths()):
                v = path.vertices
                x0, x1 = float(v[:, 0].min()), float(v[:, 0].max())
                y0 = float(v[:, 1].min())
                row = (y0 - base) / inc + 1
                bars.append([model.num(row), model.num(x0), model.num(x1 - x0), cid(fc[min(k, len(fc) - 1)])])
        legend = []
        leg = ax.get_legend()
        handles = getattr(leg, "legend_handles", None) or getattr(leg, "legendHandles", [])
        for h, txt in zip(handles, leg.get_texts()):
            label = txt.get_text()
            job = int(label.split()[-1]) + 1 if label.startswith("Job ") else -1
            legend.append([job, cid(h.get_facecolor())])
        lo, hi = ax.get_xlim()
        ticks = list(ax.get_xticks())
        return bars, legend, model.num(lo), model.num(hi), model.num(ticks[-1]) if ticks else -1

    def go():
        fig, ax = plot_gantt_chart(schedule, xlim=req_xlim or None)
        now = read(ax)
        # the chart drawn BEFORE this one (kept open until now) still shows what it showed
        stable = True
        if _EARLIER:
            fig0, ax0, was = _EARLIER[0]
            try:
                stable = (fig0 is not fig) and read(ax0) == was
            finally:
                plt.close(fig0)
        _EARLIER[:] = [(fig, ax, now)]
        return now + (stable,)

    out, r = _outcome(go)
    ev = {"a": "Plot", "out": out, "sched": model.project_schedule(schedule), "req_xlim": req_xlim,
          "bars": [], "legend": [], "xlim_lo": 0, "xlim_hi": 0, "last_tick": 0, "earlier_stable": True}
    if out == "ok":
        ev.update({"bars": r[0], "legend": r[1], "xlim_lo": r[2], "xlim_hi": r[3], "last_tick": r[4],
                   "earlier_stable": bool(r[5])})
    s._ev(ev)


_EARLIER = []       # [(figure, axes, what was read from it)] of the chart drawn before the current one


KBITS = 12
NBITS = 24


def _checksum(pairs):
    """order-independent 12-bit digest of a set of (operation id, machine id) pairs"""
    c = 0
    for (oid, m) in pairs:
        c = (c + (oid + 1) * 2654435761 + (m + 1) * 40503) % 4093
    return c


AXIS_ENDS = []


def _band_plotter(schedule, makespan=None, available_operations=None, current_time=None):
    AXIS_ENDS.append(model.num(makespan) if makespan is not None else -1)      # the axis limit this frame is asked to use
    """A plot function for the REAL gif pipeline that draws the number of
    scheduled operations as black/white bands (robust to GIF palettes)."""
    import matplotlib.pyplot as plt
    k = schedule.num_scheduled_operations
    c = _checksum((e.operation.operation_id, e.machine_id) for ms in schedule.schedule for e in ms)
    # upper row: how many operations the frame shows; lower row: WHICH ones (digest); black sentinel bands at both ends
    rows = [[0] + [(x >> b) & 1 for b in range(KBITS)] + [0] for x in (k, c)]
    fig = plt.figure(figsize=((KBITS + 2) * 0.16, 0.64), dpi=100)
    ax = fig.add_axes([0, 0, 1, 1])
    ax.axis("off")
    ax.imshow(np.array(rows, dtype=float), cmap="gray", vmin=0, vmax=1, aspect="auto", interpolation="nearest")
    return fig


def _decode_row(row):
    dark = np.nonzero(row < 128)[0]
    if len(dark) == 0:
        return -1
    lo, hi = int(dark[0]), int(dark[-1]) + 1         # from the first to the last sentinel band
    band = (hi - lo) / (KBITS + 2)
    k = 0
    for b in range(KBITS):
        x = int(lo + (b + 1.5) * band)
        if row[x] > 127:
            k |= 1 << b
    return k


def _decode(img):
    img = np.asarray(img)
    if img.ndim == 3:
        img = img[..., :3].mean(axis=2)
    h, _w = img.shape
    k, c = _decode_row(img[h // 4]), _decode_row(img[(3 * h) // 4])
    return -1 if k < 0 or c < 0 else k | (c << KBITS)


def _split(vals):
    """decoded band values -> (counts, digests)"""
    return [v & ((1 << KBITS) - 1) if v >= 0 else -1 for v in vals], [v >> KBITS if v >= 0 else -1 for v in vals]


def frames_event(s, n, rng, via_solver=None):
    """n dispatches on an instance with n operations, then the real
    create_gantt_chart_gif on the recorded history; the GIF is decoded."""
    import imageio
    from job_shop_lib.visualization import create_gantt_chart_gif
    from job_shop_lib.dispatching import HistoryObserver
    nj = max(1, min(10, n))
    lens = [n // nj + (1 if i < n % nj else 0) for i in range(nj)]
    inst = [[{"ms": [rng.randint(1, 3)], "d": rng.randint(1, 4)} for _ in range(L)] for L in lens if L > 0]
    instance = model.build_instance(inst, name=f"frames{n}")
    for _attempt in range(20):
        d = model.make_dispatcher(instance, [])
        h = HistoryObserver(d)
        nxt = [0] * len(inst)
        order = []          # my own record of what was dispatched, in dispatch order
        while not d.schedule.is_complete():
            j = rng.choice([x for x in range(len(inst)) if nxt[x] < len(inst[x])])
            op = instance.jobs[j][nxt[j]]
            d.dispatch(op)
            order.append((op.operation_id, op.machines[0]))
            nxt[j] += 1
        # the interesting histories: the operation dispatched last is not the one that finishes last
        if n < 3 or h.history[-1].end_time < d.schedule.makespan():
            break
    tmp = tempfile.mkdtemp(prefix="verif_c20_", dir=str(_workdir()))

    def go():
        gif = os.path.join(tmp, "a.gif")
        del AXIS_ENDS[:]
        if via_solver:      # the library records the history itself while the solver runs
            from job_shop_lib.dispatching.rules import DispatchingRuleSolver
            create_gantt_chart_gif(instance, gif, solver=DispatchingRuleSolver(via_solver), plot_function=_band_plotter,
                                   fps=50)
            # what the same (deterministic) solver dispatches, recorded by an observer of my own
            from job_shop_lib.dispatching import Dispatcher, DispatcherObserver
            sv = DispatchingRuleSolver(via_solver)
            d2 = Dispatcher(instance, ready_operations_filter=sv.ready_operations_filter)
            del order[:]

            class _Rec(DispatcherObserver):
                def update(self, scheduled_operation):
                    order.append((scheduled_operation.operation.operation_id, scheduled_operation.machine_id))

                def reset(self):
                    pass
            _Rec(d2)
            sv.solve(instance, d2)
        else:
            create_gantt_chart_gif(instance, gif, plot_function=_band_plotter, fps=50,
                                   schedule_history=list(h.history))
        return [_decode(f) for f in imageio.mimread(gif, memtest=False)]

    try:
        out, vals = _outcome(go)
    finally:
        shutil.rmtree(tmp, ignore_errors=True)
    ks, cs = _split(vals) if out == "ok" else ([], [])
    want = [_checksum(order[:k]) for k in range(1, len(order) + 1)]
    ev = {"a": "Frames", "n": n, "out": out, "ks": ks, "cs": cs, "want_cs": want}
    if via_solver:
        ev["via"] = "solver:" + via_solver
    else:
        ev.update({"axis_ends": list(AXIS_ENDS) if n <= 200 else list(AXIS_ENDS[:50]),
                   "final_makespan": int(d.schedule.makespan())})
    s._ev(ev)


def creator_frames_events(s, rng, n1, n2, video=False):
    """GanttChartCreator on one dispatcher over two episodes: the animation made after
    the second episode must show the second episode's history."""
    import imageio
    from job_shop_lib.visualization import GanttChartCreator
    inst = [[{"ms": [rng.randint(1, 2)], "d": rng.randint(1, 3)} for _ in range(3)] for _ in range(4)]
    instance = model.build_instance(inst, name="creator")
    d = model.make_dispatcher(instance, [])
    tmp = tempfile.mkdtemp(prefix="verif_c20c_", dir=str(_workdir()))
    path = os.path.join(tmp, "a.mp4" if video else "a.gif")
    cfg = {"video_path": path, "fps": 10} if video else {"gif_path": path, "fps": 50}
    try:
        out0, creator = _outcome(lambda: GanttChartCreator(d, **({"video_config": cfg} if video else {"gif_config": cfg})))
        if out0 != "ok":
            s._ev({"a": "Frames", "n": n2, "out": out0, "ks": []})
            return
        creator.partial_gantt_chart_plotter = _band_plotter
        for n in (n1, n2):
            nxt = [0] * len(inst)
            order = []
            for _ in range(n):
                j = rng.choice([x for x in range(len(inst)) if nxt[x] < len(inst[x])])
                op = instance.jobs[j][nxt[j]]
                d.dispatch(op)
                order.append((op.operation_id, op.machines[0]))
                nxt[j] += 1

            def go():
                (creator.create_video if video else creator.create_gif)()
                if video:
                    return [_decode(f) for f in imageio.mimread(path, memtest=False)]
                return [_decode(f) for f in imageio.mimread(path, memtest=False)]

            out, vals = _outcome(go)
            ks, cs = _split(vals) if out == "ok" else ([], [])
            ev = {"a": "Frames", "n": n, "out": out, "ks": ks, "via": "video" if video else "gif"}
            if not video:       # (the dense digest row does not survive lossy video coding; counts do)
                ev.update({"cs": cs, "want_cs": [_checksum(order[:k]) for k in range(1, len(order) + 1)]})
            s._ev(ev)
            d.reset()
    finally:
        shutil.rmtree(tmp, ignore_errors=True)


def _workdir():
    from .common import WORK
    WORK.mkdir(exist_ok=True)
    return WORK


def c20():
    chk = Check("C20", "model_checking")
    from . import framework
    saved = dict(framework.CONST_DEFAULTS)
    framework.CONST_DEFAULTS.clear()
    try:
        chk.mc("Viz.tla", "VizSpec", {"SortScheme": '"length_then_lex"'}, ["Inv_C20_FrameOrder"],
               name="C20-frame-order", workers=1)
    finally:
        framework.CONST_DEFAULTS.update(saved)
    rng = random.Random(chk.seed + 20)
    behs, _ = tlc_behaviours("c20", fam="FamA", filt="FiltNone", mode="prefixes",
                             simulate=f"num={_n(chk, 30, 300)}", workers=4)
    behs = [b for b in behs if any(a["a"] == "D" for a in b["hist"])]
    rng.shuffle(behs)
    behs = behs[: _n(chk, 80, 600)]
    rb = [random_behaviour(rng, max_jobs=5, max_ops=4, max_m=4) for _ in range(_n(chk, 30, 300))]
    traces = []
    for i, b in enumerate(behs + rb):
        s = dsession.DSession(i + 1, b["inst"], [], ())
        for a in b["hist"]:
            if a["a"] == "D":
                s.dispatch(a["j"], a["p"], a["m"])
        plot_event(s, s.dispatcher.schedule)
        mk = s.dispatcher.schedule.makespan()
        if mk > 0 and i % 3 == 0:
            plot_event(s, s.dispatcher.schedule, req_xlim=mk + rng.randint(1, 7))
        if i % 4 == 1:
            # "any schedule": one assembled from per-machine lists, and one whose lists were replaced through the
            # public `schedule` setter after it had held something else (a longer, complete schedule)
            from job_shop_lib import Schedule
            lists = [list(ms) for ms in s.dispatcher.schedule.schedule]
            out, built = dsession._outcome(lambda: Schedule(s.instance, [list(ms) for ms in lists]))
            if out == "ok":
                plot_event(s, built)
            d2 = model.make_dispatcher(s.instance, [])
            for job in s.instance.jobs:
                for op in job:
                    d2.dispatch(op, op.machines[-1])
            other = d2.schedule
            other.schedule = lists
            plot_event(s, other)
        traces.append(s.trace())
    chk.monitor(traces, source="gantt-charts-read-back")
    n0 = len(traces)
    sizes = [1, 9, 10, 100, 105, 1001] + ([99, 130, 250, 999, 1000] if chk.tier == "thorough" else [])
    traces = []
    for k, n in enumerate(sizes):
        s = dsession.DSession(n0 + k + 1, [[{"ms": [1], "d": 1}]], [], ())
        frames_event(s, n, rng)
        traces.append(s.trace())
    s = dsession.DSession(n0 + len(sizes) + 1, [[{"ms": [1], "d": 1}]], [], ())
    frames_event(s, 12, rng, via_solver="shortest_processing_time")
    frames_event(s, 31, rng, via_solver="most_work_remaining")
    creator_frames_events(s, rng, 7, 4)
    creator_frames_events(s, rng, 3, 9)
    creator_frames_events(s, rng, 5, 6, video=True)
    traces.append(s.trace())
    chk.monitor(traces, source="real-gif-pipeline-decoded", case_key=lambda t: (t["tid"], t["events"][-1].get("n")))
    chk.assumptions.append("matplotlib's rendering is a black box: bars are read back from the Axes' collections, "
                           "frames are identified by a band pattern drawn by a custom plot function")
    return chk.finish(
        "TLC: frame i of n is loaded at position i for every n <= 260 under the naming scheme + file-name sort "
        "(the plain string sort is refuted from n = 100 on); traces: real Gantt charts of TLC-generated partial and "
        "complete schedules (zero durations, requested axis limits) read back bar by bar; the real "
        "create_gantt_chart_gif run on histories of 1, 9, 10, 100, 105 and 1001 dispatches and the written GIF decoded")


CHECKS = {"C20": c20}
