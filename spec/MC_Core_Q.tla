----------------------------- MODULE MC_Core_Q -----------------------------
(* quick tier: 2754 instances x 6 filter configurations *)
EXTENDS MC_Dispatcher
Fam == Family({<<2, 1>>, <<1, 1, 1>>}, MSeqs(2), {0, 1, 2})
       \cup Family({<<2, 2>>}, MSeqs(2), {1, 2})
Filt == FiltNone \cup FiltSingles \cup FiltDefault
=============================================================================
