"""check <ID> --replay <path>: re-execute a saved failing trace against the
current tree and judge it again with the monitor."""
from __future__ import annotations

import json

from . import tlcio
from .common import MachineryError


def run(pid, path):
    doc = json.loads(open(path).read())
    trace = doc.get("trace")
    if not isinstance(trace, dict) or "events" not in trace:
        print("this replay file records a specification-level (TLC) counterexample; "
              "re-run the check itself to reproduce it")
        print(json.dumps(doc, indent=1)[:4000])
        return 1
    kind = trace.get("kind", "D")
    if kind == "D":
        from . import dsession
        new = dsession.rerun_trace(1, trace)
        new["owner"] = pid
        verdicts, _ = tlcio.monitor("Trace_D.tla", "Trace_D.cfg", f"replay-{pid}", [new], workers=1)
    else:
        from . import registry
        fn = registry.REPLAYERS.get(kind)
        if fn is None:
            raise MachineryError(f"no replayer for trace kind {kind}")
        verdicts = fn(trace, pid)
    errs = verdicts.get(1, [])
    mine = [e for e in errs if e[1].startswith(pid + ":")]
    for e in errs:
        print(("* " if e in mine else "  ") + f"event {e[0]}: {e[1]} {e[2]}")
    if mine:
        print(f"VIOLATION property={pid} replay={path}")
        return 1
    print(f"replay of {path}: no {pid} clause fails on the current tree")
    return 0
