------------------------------ MODULE MonitorD ------------------------------
(***************************************************************************)
(* Trace monitor for dispatcher-level executions (code -> spec).           *)
(*                                                                         *)
(* A trace is [inst, filt, kinds, events]; every event carries the call's  *)
(* arguments, its outcome, what recording observers saw from inside        *)
(* update()/reset() ("notes") and the projected post-state.                *)
(*                                                                         *)
(* DClauses(T, l) is a TOTAL function: the set of named clauses that       *)
(* event l of trace T violates, judged from the previous LOGGED state with  *)
(* the operators of the specification (JobShop.tla) - both "the step is    *)
(* the specification's step" and "the logged state satisfies the            *)
(* property's predicate".  Empty set = the event conforms.                 *)
(***************************************************************************)
EXTENDS Env, Rebuild, GeneratorShape, Transformations

Tag(c, x) == <<c, ToString(x)>>
C(c) == <<c, "">>
If(b, S) == IF b THEN S ELSE {}

(* --- comparison of a logged query result with the definition ---------- *)
QueryMatches(I, s, F, q, logged) ==
    CASE q = "current_time" -> logged = Now(I, s, F)
      [] q \in {"available_operations", "raw_ready_operations"} -> logged = QueryValue(I, s, F, q)
      [] OTHER -> SameBag(logged, Rng(QueryValue(I, s, F, q)))

CacheIncoherent(I, F, post) ==
    {post.cache[i][1] : i \in {k \in DOMAIN post.cache :
         ~QueryMatches(I, post.core, F, post.cache[k][1], post.cache[k][2])}}

(* --- predicates of the properties, evaluated on the LOGGED state ------- *)
StateClauses(I, F, post) ==
    LET c == post.core IN
    IF ~WellTypedSchedule(I, c.sched) THEN {C("C01:infeasible"), C("C01:schedule-mentions-foreign-operations")} ELSE
       If(~Feasible(I, c.sched), {C("C01:infeasible")})
  \cup If(post.der.complete # Complete(I, c.sched), {C("C01:complete-flag")})
  \cup If(~TrackingOK(I, c), {C("C02:tracking")})
  \cup If(Feasible(I, c.sched) /\ ~SemiActive(I, c.sched), {C("C02:start-not-forced")})
  \cup If(post.der.mk # MakespanDef(I, c.sched), {C("C02:makespan")})
  \cup If(post.der.nsch # NumScheduled(c.sched), {C("C02:count")})
  \cup {Tag("C05:cache-stale", q) : q \in CacheIncoherent(I, F, post)}
  \cup If(~post.instok, {C("C14:instance-modified")})

(* --- built-in observers: property-level predicates on the LOGGED observers -- *)
SameObs(a, b) == a.t = b.t /\ \A k \in (DOMAIN a \cap DOMAIN b) \ {"t", "name", "comps", "cols", "edges", "graph_nodes"} : a[k] = b[k]
ObsListDiff(name, exp, got) ==
    IF Len(exp) # Len(got) THEN {Tag(name, "number-of-subscribers")}
    ELSE {Tag(name, got[i].t) : i \in {k \in DOMAIN got : ~SameObs(exp[k], got[k])}}
(* C17, on the logged residual graph (statement: positive durations) *)
ResidualClauses(I, F, c, o) ==
    IF ~PositiveDurations(I) THEN {} ELSE
    LET b == o.builder  N == Len(GraphNodes(b, I))  P == GraphPairs(b, I)
        R == Rng(o.removed)
        remOps == {AllOpsSeq(I)[n] : n \in {k \in R : k <= NumOps(I)}}
        unsched == UnscheduledOps(I, c.sched)
        E == {<<o.edges[i][1], o.edges[i][2]>> : i \in DOMAIN o.edges}
    IN If(o.nnodes # N, {C("C17:node-count")})
  \cup If(~(CompletedOps(I, c, F) \subseteq remOps), {C("C17:completed-not-removed")})
  \cup If(~(remOps \subseteq ScheduledOps(c.sched)), {C("C17:unscheduled-removed")})
  \cup If(BuilderHasMachines(b) /\ \E m \in Machines(I) : NodeOfMachine(I, m) \in R /\ \E x \in unsched : m \in MSet(I, x),
          {C("C17:machine-removed-early")})
  \cup If(BuilderHasJobs(b) /\ \E j \in Jobs(I) : NodeOfJob(I, j) \in R /\ \E x \in unsched : x[1] = j,
          {C("C17:job-removed-early")})
  \cup If(\E e \in E : e[1] \in R \/ e[2] \in R, {C("C17:dangling-edge")})
  \cup If(Rng(o.graph_nodes) # (1..N) \ R, {C("C17:mask-differs-from-graph")})
  \cup If(E # LivePairs(P, R), {C("C17:edges-differ-from-graph")})
  \cup If(Complete(I, c.sched) /\ o.rm_machines /\ o.rm_jobs
          /\ (\A m \in Machines(I) : \E x \in AllOps(I) : m \in MSet(I, x)) /\ R # 1..N,
          {C("C17:not-all-removed-at-end")})

(* exp = the observer records the implementation-shaped specification expects  *)
(* after this event: a deviation from the DEFINITION is labelled "as-modelled"  *)
(* when the logged value is exactly the one the transcribed algorithm yields    *)
(* (that is how the recorded findings are recognised), "unexplained" otherwise. *)
ObsStateClauses(T, post, exp) ==
    IF ~T.featcheck THEN {} ELSE
    LET I == T.inst  F == T.filt  c == post.core
        how(i, ft, k) == IF Len(exp) = Len(post.obs) /\ exp[i].t = post.obs[i].t /\ "f" \in DOMAIN exp[i]
                            /\ ft \in DOMAIN exp[i].f /\ exp[i].f[ft][k] = post.obs[i].f[ft][k]
                         THEN "as-modelled" ELSE "unexplained"
    IN
    UNION { LET o == post.obs[i] IN
               (IF "f" \in DOMAIN o
                THEN {Tag("C11:feat", <<o.t, d[1], d[2], d[3], how(i, d[1], d[4])>>) : d \in FeatDeviations(I, c, F, o)} ELSE {})
          \cup If(o.t = "CompositeFeatureObserver" /\ ~CompositeOK(post.obs, o), {C("C11:composite")})
          \cup If(o.t \in {"MakespanReward", "IdleTimeReward"} /\ ~RewardsOK(I, c, o, NumScheduled(c.sched)),
                  {Tag("C13:rewards", o.t)})
          \cup (IF IsResidual(o) THEN ResidualClauses(I, F, c, o) ELSE {})
          \cup If(o.t = "UnscheduledOperationsObserver"
                    /\ (o.dq # DequesFor(I, c) \/ o.n # Cardinality(UnscheduledOps(I, c.sched))),
                  {C("C05:unscheduled-observer")})
          : i \in DOMAIN post.obs }

NotingKinds == {"rec", "histsub"}
HistKinds == {"hist", "histsub"}
Noting(kinds, subs) == SelectSeq(subs, LAMBDA o : o # 0 /\ kinds[o] \in NotingKinds)

(* what recording observers must have seen for an accepted dispatch of e   *)
(* = <<j, p, m, st>>, delivered to prevSubs in order, each exactly once,   *)
(* with the dispatcher already showing the operation                        *)
NoteClauses(I, kinds, prevSubs, ev, e, post) ==
    LET want == Noting(kinds, prevSubs)
        got == [i \in DOMAIN ev.notes |-> ev.notes[i].o]
        c == post.core
    IN If(got # want,
          IF Rng(got) = Rng(want) /\ Len(got) = Len(want) THEN {C("C10:notify-order")}
          ELSE IF Len(got) > Len(want) THEN {C("C10:notified-too-often")}
          ELSE {C("C10:notify-missing")})
  \cup If(\E i \in DOMAIN ev.notes : ev.notes[i].ev # "update" \/ ev.notes[i].op # e, {C("C10:notify-argument")})
  \cup If(\E i \in DOMAIN ev.notes :
              \/ ~ev.notes[i].is_sched
              \/ ev.notes[i].nsch # NumScheduled(c.sched)
              \/ ~SameBag(ev.notes[i].sched_ops, ScheduledOps(c.sched)),
          {C("C10:notified-before-effect")})

HistClauses(kinds, prev, post, e, isReset) ==
    UNION {
      LET subscribed == \E i \in DOMAIN prev.subs : prev.subs[i] = o
          isHist == kinds[o] \in HistKinds /\ ~prev.hists[o].na /\ ~post.hists[o].na
      IN IF ~isHist THEN {}
         ELSE IF subscribed
              THEN If(post.hists[o].h # (IF isReset THEN <<>> ELSE Append(prev.hists[o].h, e)), {C("C10:history")})
              ELSE If(post.hists[o].h # prev.hists[o].h, {C("C10:unsubscribed-notified")})
      : o \in DOMAIN kinds }

(* C06, on consecutive logged states of an accepted dispatch *)
TimeClauses(I, F, s, c) ==
    LET carve == F = <<>> \/ PositiveDurations(I) IN
       If(carve /\ Now(I, c, F) < Now(I, s, F), {C("C06:time-decreased")})
  \cup If(carve /\ ~(CompletedOps(I, s, F) \subseteq CompletedOps(I, c, F)), {C("C06:completed-shrank")})
  \cup If(Complete(I, c.sched) /\ Now(I, c, F) # MakespanDef(I, c.sched), {C("C06:end-now")})
  \cup If(PositiveDurations(I) /\ Now(I, c, F) # Now(I, c, <<>>), {C("C06:filter-changed-now")})

ObserversUntouched(prev, post) ==
    /\ post.subs = prev.subs /\ post.hists = prev.hists /\ post.obs = prev.obs

(* --- one clause function per kind of event ------------------------------ *)
InitClauses(T, ev, post) ==
       If(post.core # InitState(T.inst), {C("C12:init-state")})
  \cup StateClauses(T.inst, T.filt, post)

(* C13 step by step (the running sums telescope to this, and it also holds for a reward observer that was   *)
(* attached in the middle of a history): the reward emitted for an accepted dispatch of e = <<j, p, m, st>> *)
(* is minus the growth of the makespan, resp. minus the idle time e leaves on its machine                   *)
RewardStepClauses(I, prev, post, e) ==
    IF Len(post.obs) # Len(prev.obs) THEN {} ELSE
    UNION { LET o == post.obs[i]  q == prev.obs[i] IN
            IF o.t = q.t /\ o.t \in {"MakespanReward", "IdleTimeReward"} /\ "rewards" \in DOMAIN o /\ "rewards" \in DOMAIN q
            THEN IF Len(o.rewards) # Len(q.rewards) + 1 THEN {Tag("C13:reward-count-step", o.t)}
                 ELSE LET r == o.rewards[Len(o.rewards)] IN
                      IF o.t = "MakespanReward"
                      THEN If(r # MakespanDef(I, prev.core.sched) - MakespanDef(I, post.core.sched), {Tag("C13:reward-step", o.t)})
                      ELSE If(r # prev.core.mfree[e[3]] - e[4], {Tag("C13:reward-step", o.t)})
            ELSE {} : i \in DOMAIN post.obs }

DispatchClauses(T, prev, ev, post) ==
    LET I == T.inst  s == prev.core  c == post.core
        valid == ValidRequest(I, s, ev.j, ev.p, ev.m)
        ok == ev.out = "ok"
    IN If(ok /\ ~valid, {C("C09:accepted-invalid")})
  \* "rejected dispatches notify nobody": a request that had to be rejected reached the observers
  \cup If(ok /\ ~valid /\ ev.notes # <<>>, {C("C10:observers-notified-of-a-request-that-had-to-be-rejected")})
  \cup If(~ok /\ valid, {C("C09:rejected-valid")})
  \cup (IF ok /\ valid THEN
          LET exp == DispatchNext(I, s, ev.j, ev.m)
              e == <<ev.j, ev.p, ev.m, StartTime(s, ev.j, ev.m)>>
          IN If(c.sched # exp.sched,
                IF \A m \in DOMAIN c.sched : Len(c.sched[m]) = Len(exp.sched[m])
                   /\ \A i \in DOMAIN c.sched[m] : EOp(c.sched[m][i]) = EOp(exp.sched[m][i])
                THEN {C("C02:start")} ELSE {C("C01:schedule-step")})
        \cup If(<<c.nxt, c.jfree, c.mfree>> # <<exp.nxt, exp.jfree, exp.mfree>>, {C("C02:tracking-step")})
        \cup NoteClauses(I, T.kinds, prev.subs, ev, e, post)
        \cup (IF c.sched = exp.sched /\ c.mfree = exp.mfree THEN RewardStepClauses(I, prev, post, e) ELSE {})
        \cup HistClauses(T.kinds, prev, post, e, FALSE)
        \cup If(post.subs # prev.subs, {C("C10:subscribers-changed")})
        \cup TimeClauses(I, T.filt, s, c)
        \cup If(Len(post.obs) = Len(prev.obs) /\ \E i \in DOMAIN post.obs :
                  IsResidual(post.obs[i]) /\ IsResidual(prev.obs[i])
                  /\ ~(Rng(prev.obs[i].removed) \subseteq Rng(post.obs[i].removed)), {C("C17:removal-undone")})
        \cup ObsListDiff("D:drift", NotifyAllG(I, c, T.filt, prev.obs, e), post.obs)
        \cup ObsStateClauses(T, post, NotifyAllG(I, c, T.filt, prev.obs, e))
        ELSE {})
  \cup (IF ~ok THEN
             If(c # s, {C("C09:state-changed-on-reject")})
        \cup If(~ObserversUntouched(prev, post), {C("C09:observers-changed-on-reject")})
        \cup If(ev.notes # <<>>, {C("C10:notified-on-reject")})
        \cup If(post.cache # prev.cache, {C("C09:cache-changed-on-reject")})
        ELSE {})
  \cup StateClauses(I, T.filt, post)

ResetClauses(T, prev, ev, post) ==
    LET want == Noting(T.kinds, prev.subs)
        got == [i \in DOMAIN ev.notes |-> ev.notes[i].o]
    IN If(ev.out # "ok", {C("C12:reset-raised")})
  \cup If(post.core # InitState(T.inst), {C("C12:reset-core")})
  \cup If(got # want, {C("C10:reset-notify")})
  \cup If(\E i \in DOMAIN ev.notes : ev.notes[i].ev # "reset" \/ ev.notes[i].nsch # 0 \/ ev.notes[i].sched_ops # <<>>,
          {C("C10:reset-notified-before-effect")})
  \cup HistClauses(T.kinds, prev, post, <<>>, TRUE)
  \cup If(post.subs # prev.subs, {C("C10:subscribers-changed")})
  \cup StateClauses(T.inst, T.filt, post)
  \cup ObsListDiff("D:drift-reset", ResetAllG(T.inst, InitState(T.inst), T.filt, prev.obs, "deps_first"), post.obs)
  \cup (IF T.freshcheck THEN ObsListDiff("C12:reset-differs-from-fresh", T.fresh_obs, post.obs) ELSE {})
  \cup ObsStateClauses(T, post, ResetAllG(T.inst, InitState(T.inst), T.filt, prev.obs, "deps_first"))

QueryClauses(T, prev, ev, post) ==
       If(ev.out # "ok", {Tag("C05:query-raised", ev.q)})
  \cup If(ev.out = "ok" /\ ~QueryMatches(T.inst, prev.core, T.filt, ev.q, ev.res), {Tag("C05:query", ev.q)})
  \cup If(ev.out = "ok" /\ ev.q \in {"current_time", "completed_operations"}
          /\ ~QueryMatches(T.inst, prev.core, T.filt, ev.q, ev.res), {Tag("C06:query", ev.q)})
  \cup If(post.core # prev.core \/ ~ObserversUntouched(prev, post), {C("C05:query-changed-state")})
  \cup StateClauses(T.inst, T.filt, post)

QueryArgClauses(T, prev, ev, post) ==
    LET I == T.inst  s == prev.core  o == <<ev.j, ev.p>>
        hasNext == s.nxt[ev.j] <= JobLen(I, ev.j)
        good ==
          CASE ev.q = "is_scheduled"        -> ev.out = "ok" /\ ev.res = (ev.p < s.nxt[ev.j])
            [] ev.q = "is_operation_ready"  -> ev.out = "ok" /\ ev.res = (ev.p = s.nxt[ev.j])
            [] ev.q = "earliest_start_time" -> ev.out = "ok" /\ ev.res = EarliestStart(I, s, o)
            [] ev.q = "start_time"          -> ev.out = "ok" /\ ev.res = StartTime(s, ev.j, ev.m)
            [] ev.q = "min_start_time"      -> ev.out = "ok" /\ ev.res = MinStart(I, s, ev.L)
            [] ev.q = "next_operation"      -> IF hasNext THEN ev.out = "ok" /\ ev.res = <<ev.j, s.nxt[ev.j]>>
                                               ELSE ev.out # "ok"
    IN If(~good, {Tag("C05:query", ev.q)})
  \cup If(~good /\ "after_reject" \in DOMAIN ev, {Tag("C09:query-differs-after-a-rejected-request", ev.q)})
  \cup If(post.core # prev.core \/ post.cache # prev.cache, {C("C05:query-changed-state")})

FilterClauses(T, prev, ev, post) ==
    LET I == T.inst  s == prev.core
    IN If(ev.out # "ok", {Tag("C07:filter-raised", ev.names)})
  \cup (IF ev.out = "ok" THEN
             If(ev.res # ApplyFilters(I, s, ev.names, ev.L), {Tag("C07:filter", ev.names)})
        \cup If(ev.res_first # ev.res, {Tag("C07:filter-result-changes-between-calls", ev.names)})
        \cup If(~IsSubSeqOf(ev.res, ev.L) \/ ~NoDup(ev.res), {Tag("C07:filter-not-sublist", ev.names)})
        \cup If(ev.L # <<>> /\ ev.res = <<>>, {Tag("C07:filter-empty", ev.names)})
        ELSE {})
  \cup If(post.core # prev.core, {C("C07:filter-changed-state")})

ReplayClauses(T, prev, ev, post) ==
       If(ev.out # "ok" \/ ev.res # prev.core.sched, {C("C02:replay")})
  \cup If(post.core # prev.core, {C("C02:replay-state")})
  \cup StateClauses(T.inst, T.filt, post)

(* --- C04: dispatching rules ------------------------------------------------ *)
RuleBestSet(rule, I, s, F) ==
    CASE rule \in RuleNames -> BestUnder(rule, I, s, F)
      [] rule = "obs_mwkr"  -> BestUnderObsMwkr(I, s, F)
      [] OTHER              -> Rng(Avail(I, s, F))          \* random: any available operation

(* one solver.step(dispatcher): the dispatched operation is what the recording *)
(* observer was told                                                           *)
RuleStepClauses(T, prev, ev, post) ==
    LET I == T.inst  s == prev.core  F == T.filt IN
    IF ev.out # "ok" THEN If(Avail(I, s, F) # <<>>, {Tag("C04:rule-raised", <<ev.rule, ev.out>>)})
    ELSE IF Len(ev.notes) # 1 THEN {C("C04:step-did-not-dispatch-once")}
    ELSE LET e == ev.notes[1].op  o == <<e[1], e[2]>>  m == e[3] IN
           If(o \notin Rng(Avail(I, s, F)), {Tag("C04:selected-not-available", ev.rule)})
      \cup If(o \in Rng(Avail(I, s, F)) /\ o \notin RuleBestSet(ev.rule, I, s, F), {Tag("C04:selected-not-best", ev.rule)})
      \cup If(m \notin MSet(I, o), {C("C04:machine-not-eligible")})
      \cup If(ev.chooser = "first" /\ m # Op(I, o).ms[1], {C("C04:chooser-first")})
      \cup If(ValidRequest(I, s, o[1], o[2], m) /\ post.core # DispatchNext(I, s, o[1], m), {C("C04:step-state")})
      \cup StateClauses(I, F, post)

(* every rule asked (without dispatching) in the same state *)
RulePicksClauses(T, prev, ev, post) ==
    LET I == T.inst  s == prev.core  F == T.filt
        bad == {i \in DOMAIN ev.picks : ev.picks[i].out # "ok"}
        asked == Avail(I, s, F) # <<>>       \* rules are only defined where something is available
    IN {Tag("C04:rule-raised", ev.picks[i].rule) : i \in {k \in bad : asked}}
  \cup {Tag("C04:selected-not-available", ev.picks[i].rule) :
          i \in {k \in DOMAIN ev.picks \ bad : ev.picks[k].res \notin Rng(Avail(I, s, F))}}
  \cup {Tag("C04:selected-not-best", ev.picks[i].rule) :
          i \in {k \in DOMAIN ev.picks \ bad : ev.picks[k].res \in Rng(Avail(I, s, F))
                                                /\ ev.picks[k].res \notin RuleBestSet(ev.picks[k].rule, I, s, F)}}
  \cup If(\E a, b \in DOMAIN ev.picks \ bad : ev.picks[a].rule = "mwkr" /\ ev.picks[b].rule = "obs_mwkr"
                                               /\ ev.picks[a].res # ev.picks[b].res, {C("C04:mwkr-disagree")})
  \cup If(post.core # prev.core, {C("C04:rule-changed-state")})

(* a rule composed from built-in scoring functions with tie-breaking *)
ScoreRuleClauses(T, prev, ev, post) ==
    LET I == T.inst  s == prev.core  F == T.filt
        Vs == [i \in DOMAIN ev.fns |-> ScoreVector(ev.fns[i], I, s, F)]
    IN {Tag("C04:score", ev.fns[i]) : i \in {k \in DOMAIN ev.fns : ev.scores[k] # Vs[k]}}
  \cup If(ev.out # "ok" /\ Avail(I, s, F) # <<>>, {Tag("C04:rule-raised", <<ev.fns, ev.out>>)})
  \cup If(ev.out = "ok" /\ ev.res \notin Rng(Avail(I, s, F)), {Tag("C04:selected-not-available", ev.fns)})
  \cup If(ev.out = "ok" /\ ev.res \in Rng(Avail(I, s, F)) /\ ev.res \notin LexBest(Vs, I, s, F), {Tag("C04:lex-not-best", ev.fns)})
  \cup If(post.core # prev.core, {C("C04:rule-changed-state")})

(* solver(instance): a complete run of the built-in solver on its own dispatcher *)
SolverCallClauses(T, prev, ev, post) ==
    LET I == T.inst IN
    IF ev.out # "ok" THEN {Tag("C04:solver-raised", ev.out)}
    ELSE IF ~WellTypedSchedule(I, ev.sched) THEN {C("C04:solver-infeasible")}
    ELSE   If(~Feasible(I, ev.sched), {C("C04:solver-infeasible")})
      \cup If(~Complete(I, ev.sched), {C("C04:solver-incomplete")})
      \cup If(ev.elapsed_sign < 0, {C("C04:negative-elapsed-time")})
      \cup If("elapsed_le_wall" \in DOMAIN ev /\ ~ev.elapsed_le_wall /\ ev.elapsed_sign >= 0, {C("C04:elapsed-time-exceeds-wall-clock")})
      \cup If(ev.solved_by # "DispatchingRuleSolver", {C("C04:solved-by")})
      \cup If(post.core # prev.core, {C("C04:solver-changed-caller-state")})

(* --- C08: the real dispatch tree under the real filter --------------------- *)
RECURSIVE StateAfter(_, _, _)
StateAfter(I, s, prefix) ==
    IF prefix = <<>> THEN s ELSE StateAfter(I, DispatchNext(I, s, Head(prefix)[1], Head(prefix)[2]), Tail(prefix))
BestFilteredClauses(T, prev, ev, post) ==
    LET I == T.inst  opt == Opt(I) IN
    IF ev.out # "ok" THEN {Tag("C08:tree-walk-raised", ev.out)}
    ELSE   If(ev.leaves = <<>>, {C("C08:no-complete-schedule")})
      \cup If(ev.conflicts # <<>>, {Tag("C08:surviving-operations-depend-on-history", ev.bfilt)})
      \cup If(\E i \in DOMAIN ev.nodes :
                ev.nodes[i].avail # Avail(I, StateAfter(I, InitState(I), ev.nodes[i].prefix), ev.bfilt),
              {Tag("C08:surviving-operations-differ-from-the-filter-definition", ev.bfilt)})
      \cup If(\E i \in DOMAIN ev.leaves : ev.leaves[i] = -1, {Tag("C07:filter-dead-end", ev.bfilt)})
      \cup If(\E i \in DOMAIN ev.leaves : ev.leaves[i] # -1 /\ ev.leaves[i] < opt, {C("C08:below-optimum")})
      \cup If(PositiveDurations(I) /\ ev.bfilt \in {<<>>, <<"dom">>}
              /\ ~(\E i \in DOMAIN ev.leaves : ev.leaves[i] = opt), {Tag("C08:optimum-lost", ev.bfilt)})

(* --- C03: the CP-SAT solver (a black box judged by its results) ------------ *)
CpSatClauses(T, prev, ev, post) ==
    LET I == T.inst IN
    IF ev.out = "exc:NoSolutionFoundError"
    THEN If(ev.mode \notin {"timelimit", "shortlimit"}, {C("C03:no-solution-without-time-limit")})
    ELSE IF ev.out # "ok" THEN {Tag("C03:cpsat-raised", <<ev.mode, ev.out>>)}
    ELSE IF ~WellTypedSchedule(I, ev.sched) THEN {Tag("C03:infeasible", ev.mode), Tag("C03:schedule-mentions-foreign-operations", ev.mode)}
    ELSE   If(~Feasible(I, ev.sched), {Tag("C03:infeasible", ev.mode)})
      \cup If(~Complete(I, ev.sched), {Tag("C03:incomplete", ev.mode)})
      \cup If(ev.makespan # MakespanDef(I, ev.sched), {C("C03:reported-makespan")})
      \cup If(ev.status \notin {"optimal", "feasible"}, {C("C03:status")})
      \cup If(ev.solved_by # "ORToolsSolver", {C("C03:solved-by")})
      \cup If(ev.elapsed_sign < 0, {C("C03:negative-elapsed-time")})
      \cup If("elapsed_le_wall" \in DOMAIN ev /\ ~ev.elapsed_le_wall /\ ev.elapsed_sign >= 0, {C("C03:elapsed-time-exceeds-wall-clock")})
      \cup If(Feasible(I, ev.sched) /\ Complete(I, ev.sched) /\ MakespanDef(I, ev.sched) < LowerBound(I), {C("C03:below-lower-bound")})
      \cup If(ev.lb > 0 /\ ev.makespan < ev.lb, {C("C03:below-benchmark-bound")})
      \cup If(ev.status = "optimal" /\ ev.ub > 0 /\ ev.makespan > ev.ub, {C("C03:above-benchmark-optimum")})
      \cup If(ev.status = "optimal" /\ \E i \in DOMAIN ev.rule_mks : ev.makespan > ev.rule_mks[i], {C("C03:above-rule-result")})
      \cup If(ev.status = "optimal" /\ ev.small /\ MakespanDef(I, ev.sched) # Opt(I), {Tag("C03:not-optimal", ev.mode)})
      \cup If(post.core # prev.core, {C("C03:changed-caller-state")})

(* --- construction of a built-in observer; the same calls on fresh objects ---- *)
SingletonClasses == {"UnscheduledOperationsObserver", "HistoryObserver", "MakespanReward", "IdleTimeReward",
                     "ResidualGraphUpdater"}
CreateObsClauses(T, prev, ev, post) ==
    LET dup == ev.t \in SingletonClasses /\ \E i \in DOMAIN prev.obs : prev.obs[i].t = ev.t IN
       If(ev.out # "ok" /\ ~dup, {Tag("C11:construct-raised", <<ev.t, ev.out>>)})
  \cup If(ev.out = "ok" /\ dup, {Tag("C10:singleton-accepted", ev.t)})
  \cup (IF ev.out = "ok" /\ ev.t \notin {"CompositeFeatureObserver", "ResidualGraphUpdater"}
        THEN ObsListDiff("D:drift-create",
                         ObsCreate(T.inst, prev.core, T.filt, prev.obs, ev.t, Rng(ev.fts)), post.obs)
        ELSE {})
  \cup If(post.core # prev.core, {C("C11:construct-changed-state")})
  \cup If("configured" \in DOMAIN ev /\ ev.out = "ok" /\ ev.component_types # ev.configured,
          {C("C11:composite-components-differ-from-configured")})
  \* a built-in observer constructed with its default arguments is subscribed (otherwise it silently never
  \* hears of a dispatch, and whatever the property under check says about it cannot hold)
  \cup If("subscribed" \in DOMAIN ev /\ ~ev.subscribed, {Tag(T.owner \o ":constructed-observer-not-subscribed", ev.t)})
  \cup (IF ev.out = "ok" THEN ObsStateClauses(T, post, post.obs) ELSE {})
FreshRunClauses(T, prev, ev, post) ==
       If(ev.core # prev.core, {C("C12:core-differs-from-fresh-run")})
  \cup ObsListDiff("C12:differs-from-fresh-run", ev.obs, prev.obs)

(* --- C16: graph builders and the solved disjunctive graph -------------------- *)
GraphShapeClauses(b, I, ev, wantPairs) ==
    LET E == {<<ev.edges[i][1], ev.edges[i][2]>> : i \in DOMAIN ev.edges} IN
       If([i \in DOMAIN ev.nodes |-> <<ev.nodes[i][2], ev.nodes[i][3]>>] # GraphNodes(b, I)
          \/ \E i \in DOMAIN ev.nodes : ev.nodes[i][1] # i, {Tag("C16:nodes", b)})
  \cup If(wantPairs \ E # {}, {Tag("C16:edges-missing", b)})
  \cup If(E \ wantPairs # {}, {Tag("C16:edges-extra", b)})
  \cup If(~NoDup(ev.edges), {Tag("C16:edges-duplicated", b)})
  \cup If(\E i \in DOMAIN ev.edges : <<ev.edges[i][1], ev.edges[i][2]>> \in wantPairs /\ ~EdgeTypeOK(b, I, ev.edges[i]),
          {Tag("C16:edge-type", b)})
GraphClauses(T, prev, ev, post) ==
    IF ev.out # "ok" THEN {Tag("C16:builder-raised", <<ev.builder, ev.out>>)}
    ELSE GraphShapeClauses(ev.builder, T.inst, ev, GraphPairs(ev.builder, T.inst))
         \cup If(post.core # prev.core \/ ~post.instok, {C("C16:builder-changed-state")})
         \cup If("earlier_stable" \in DOMAIN ev /\ ~ev.earlier_stable, {Tag("C16:earlier-graph-changed-by-building-another", ev.builder)})
SolvedClauses(T, prev, ev, post) ==
    LET I == T.inst  sch == ev.sched
        E == {<<ev.edges[i][1], ev.edges[i][2]>> : i \in DOMAIN ev.edges}
        N == NumOps(I) + 2
    IN IF ev.out # "ok" THEN {Tag("C16:solved-raised", ev.out)}
       ELSE IF ~WellTypedSchedule(I, sch) THEN {C("C16:solved-graph-of-malformed-schedule")}
       ELSE GraphShapeClauses("solved", I, ev, SolvedPairs(I, sch))
       \cup (IF PositiveDurations(I) /\ Complete(I, sch) /\ Feasible(I, sch)
             THEN   If(~Acyclic(E, N) \/ ~ev.is_dag, {C("C16:solved-cyclic")})
               \cup If(Acyclic(E, N) /\ LongestPath(I, E) > MakespanDef(I, sch), {C("C16:longest-path-exceeds-makespan")})
               \cup If(Acyclic(E, N) /\ SemiActive(I, sch)
                       /\ (LongestPath(I, E) # MakespanDef(I, sch) \/ ev.longest # MakespanDef(I, sch)),
                       {C("C16:longest-path-differs-from-makespan")})
             ELSE {})

(* --- C18: the Gymnasium environments ------------------------------------------ *)
FirstOfType(L, t) == LET i == FirstIdx(L, LAMBDA x : x.t = t) IN i
EnvObsClauses(T, eobs, post) ==
    LET ri == FirstOfType(post.obs, "ResidualGraphUpdater")
        ci == FirstOfType(post.obs, "CompositeFeatureObserver")
    IN IF ri = 0 \/ ci = 0 THEN {C("M:env-without-updater-or-composite")} ELSE
    LET r == post.obs[ri]  comp == post.obs[ci]
        E == {<<r.edges[i][1], r.edges[i][2]>> : i \in DOMAIN r.edges}
    IN If(~MaskOK(eobs.removed_nodes, r.nnodes, Rng(r.removed)), {C("C18:mask-differs-from-graph")})
  \cup If(~EdgeIndexOK(eobs.edge_index, E), {C("C18:edge-index-differs-from-graph")})
  \cup If(DOMAIN eobs.features # DOMAIN comp.f, {C("C18:feature-keys")})
  \cup {Tag("C18:features-differ-from-observer", ft) :
          ft \in {x \in DOMAIN eobs.features \cap DOMAIN comp.f : ~FeatureMatrixOK(eobs.features[x], comp.f[x])}}
  \cup If(T.env.use_padding /\ ~eobs.in_space, {C("C18:observation-outside-declared-space")})
  \cup If(T.env.use_padding /\ eobs.shapes # T.env.declared_shapes, {C("C18:observation-shape")})

AsDispatch(T, prev, ev) ==
    [a |-> "Dispatch", j |-> ev.j,
     p |-> IF ev.j \in Jobs(T.inst) THEN prev.core.nxt[ev.j] ELSE 0,
     m |-> MachineOfAction(T.inst, prev.core, ev.j, ev.m),
     out |-> ev.out, notes |-> ev.notes, none |-> FALSE]
RewardRecIdx(L) == FirstIdx(L, LAMBDA x : x.t \in {"MakespanReward", "IdleTimeReward"})
EnvStepClauses(T, prev, ev, post) ==
    LET I == T.inst  legal == LegalActions(I, prev.core) IN
       DispatchClauses(T, prev, AsDispatch(T, prev, ev), post)
  \cup If(\E a \in legal : ~ev.space_contains[a[1]][a[2] + 1], {C("C18:legal-action-outside-action-space")})
  \cup If(\E a \in legal : ~InMultiDiscrete(a, T.env.nvec, T.env.start), {C("C18:legal-action-outside-declared-nvec")})
  \cup (IF ev.out = "ok"
        THEN EnvObsClauses(T, ev.eobs, post)
          \cup If(ev.done # Complete(I, post.core.sched), {C("C18:done-flag")})
          \cup If(ev.truncated, {C("C18:truncated")})
          \cup (LET i == RewardRecIdx(post.obs) IN
                If(i = 0 \/ (i # 0 /\ (post.obs[i].rewards = <<>> \/ ev.reward # post.obs[i].rewards[Len(post.obs[i].rewards)])),
                   {C("C13:env-reward-differs-from-emitted")}))
        ELSE EnvObsClauses(T, ev.eobs, post))
EnvResetClauses(T, prev, ev, post) ==
    IF ev.out # "ok" THEN {Tag("C18:reset-raised", ev.out)}
    ELSE ResetClauses(T, prev, [a |-> "Reset", out |-> "ok", notes |-> ev.notes], post)
         \cup EnvObsClauses(T, ev.eobs, post)
EnvFreshRunClauses(T, prev, ev, post) ==
       If(ev.core # prev.core, {C("C12:core-differs-from-fresh-run")})
  \cup ObsListDiff("C12:differs-from-fresh-run", ev.obs, prev.obs)
  \cup If(ev.eobs_here # ev.eobs_fresh, {C("C12:env-observation-differs-from-fresh-env")})
(* first event of an episode of the multi-instance environment *)
MultiResetClauses(T, prev, ev, post) ==
    LET I == T.inst  g == T.env.generator IN
       If(ev.episode # T.env.ctor, {C("C18:episode-config-differs-from-constructor")})
  \cup If(ev.episode.reward # T.env.ctor.reward, {C("C13:episode-reward-function-differs-from-configured")})
  \cup If(~(Len(I) \in g.jobs[1]..g.jobs[2]) \/ NM(I) > g.machines[2]
          \/ \E j \in Jobs(I) : ~(Len(I[j]) \in g.machines[1]..g.machines[2]), {C("C18:instance-outside-generator-ranges")})
  \cup EnvObsClauses(T, ev.eobs, post)
EnvCtorFailedClauses(T, prev, ev, post) == {Tag("C18:environment-constructor-raised", <<ev.out, ev.builder>>)}
MultiResetFailedClauses(T, prev, ev, post) == {Tag("C18:multi-reset-raised", <<ev.out, ev.flexible_generator>>)}

(* --- C14: views, round trips, rebuilding from job sequences -------------------- *)
NanPad(q, n) == [k \in 1..n |-> IF k <= Len(q) THEN q[k] ELSE NANV]
MaxMsLen(I) == MaxOr0({Len(Op(I, o).ms) : o \in AllOps(I)})
ViewsWrong(I, v) ==
    {n \in DOMAIN v :
       CASE n = "num_jobs" -> v[n] # Len(I)
         [] n = "num_machines" -> v[n] # NM(I)
         [] n = "num_operations" -> v[n] # NumOps(I)
         [] n = "is_flexible" -> v[n] # IsFlexible(I)
         [] n = "op_ids" -> v[n] # [j \in Jobs(I) |-> [p \in 1..Len(I[j]) |-> <<j, p, OpId(I, <<j, p>>)>>]]
         [] n = "durations_matrix" -> v[n] # [j \in Jobs(I) |-> [p \in 1..Len(I[j]) |-> I[j][p].d]]
         [] n = "machines_matrix" -> v[n] # [j \in Jobs(I) |-> [p \in 1..Len(I[j]) |-> I[j][p].ms]]
         [] n = "machines_matrix_is_nested" -> v[n] # IsFlexible(I)
         [] n = "durations_matrix_array" ->
                v[n] # [j \in Jobs(I) |-> NanPad([p \in 1..Len(I[j]) |-> I[j][p].d], MaxJobLen(I))]
         [] n = "machines_matrix_array" ->
                v[n] # [j \in Jobs(I) |-> [p \in 1..MaxJobLen(I) |->
                           IF p <= Len(I[j]) THEN NanPad(I[j][p].ms, MaxMsLen(I)) ELSE NanPad(<<>>, MaxMsLen(I))]]
         [] n = "operations_by_machine" -> v[n] # [m \in Machines(I) |-> OpsByMachine(I, m)]
         [] n = "max_duration" -> v[n] # MaxDuration(I)
         [] n = "max_duration_per_job" -> v[n] # [j \in Jobs(I) |-> MaxDurationPerJob(I, j)]
         [] n = "max_duration_per_machine" -> v[n] # [m \in Machines(I) |-> MaxDurationPerMachine(I, m)]
         [] n = "job_durations" -> v[n] # [j \in Jobs(I) |-> JobDuration(I, j)]
         [] n = "machine_loads" -> v[n] # [m \in Machines(I) |-> MachineLoad(I, m)]
         [] n = "total_duration" -> v[n] # TotalDuration(I)
         [] OTHER -> FALSE}
ViewsClauses(T, prev, ev, post) ==
       {Tag("C14:view", n) : n \in ViewsWrong(T.inst, ev.views)}
  \cup {Tag("C14:view-raised", ev.raised[i]) : i \in DOMAIN ev.raised}
  \cup If(~post.instok, {C("C14:instance-modified")})
RoundTripClauses(T, prev, ev, post) ==
    IF ev.out # "ok" THEN {Tag("C14:roundtrip-raised", <<ev.via, ev.out>>)}
    ELSE   If(ev.inst # T.inst, {Tag("C14:roundtrip-operations", ev.via)})
      \cup If(ev.name # ev.orig_name, {Tag("C14:roundtrip-name", ev.via)})
      \cup If(ev.metadata # ev.orig_metadata, {Tag("C14:roundtrip-metadata", ev.via)})
      \cup If(~post.instok, {C("C14:instance-modified")})
FromSeqsClauses(T, prev, ev, post) ==
    LET I == T.inst  P == ev.P IN
    IF ~IsPermTuple(I, P)
    THEN \* malformed sequences: outside the statement's quantifier; only "an exception or a feasible complete schedule, no hang"
         If(ev.out = "hang" \/ (ev.out = "ok" /\ ~(WellTypedSchedule(I, ev.sched) /\ Feasible(I, ev.sched) /\ Complete(I, ev.sched))), {C("C14:fromseqs-malformed-input")})
    ELSE LET exp == Rebuild(I, P) IN
           If(ev.out = "hang", {C("C14:fromseqs-hang")})
      \cup If((ev.out = "ok") # AdmitsSchedule(I, P), {C("C14:fromseqs-accepts-iff-schedulable")})
      \cup If(ev.out \notin {"ok", "exc:ValidationError", "hang"}, {Tag("C14:fromseqs-raised", ev.out)})
      \cup (IF ev.out = "ok" /\ ~WellTypedSchedule(I, ev.sched) THEN {C("C14:fromseqs-infeasible")}
            ELSE IF ev.out = "ok"
            THEN   If(~Feasible(I, ev.sched) \/ ~Complete(I, ev.sched), {C("C14:fromseqs-infeasible")})
              \cup If(JobSequences(ev.sched) # P, {C("C14:fromseqs-order")})
              \cup If(exp.out = "ok" /\ ev.sched # exp.s.sched, {C("C14:fromseqs-schedule")})
            ELSE {})
SchedRoundTripClauses(T, prev, ev, post) ==
       If(ev.out # "ok", {Tag("C14:schedule-roundtrip-raised", <<ev.via, ev.out>>)})
  \cup If(ev.out = "ok" /\ ev.sched # prev.core.sched, {Tag("C14:schedule-roundtrip", ev.via)})
  \cup If(ev.out = "ok" /\ ev.via = "dict" /\ ev.metadata # ev.orig_metadata, {C("C14:schedule-roundtrip-metadata")})
(* --- C15: equality is equality of content ---------------------------------------- *)
EqClauses(T, prev, ev, post) ==
    LET same == ev.ca = ev.cb IN
       If(ev.eq_ab # same, {Tag("C15:equality", <<ev.kind, IF same THEN "same-content-unequal" ELSE "different-content-equal">>)})
  \cup If(ev.eq_ab # ev.eq_ba, {Tag("C15:not-symmetric", ev.kind)})
  \cup If(ev.ne_ab = ev.eq_ab, {Tag("C15:ne-inconsistent", ev.kind)})
  \cup If(~ev.eq_aa \/ ~ev.eq_bb, {Tag("C15:not-reflexive", ev.kind)})
  \cup If(ev.eq_ab /\ ~ev.hash_eq, {Tag("C15:equal-but-different-hash", ev.kind)})
EqTripleClauses(T, prev, ev, post) ==
       If(ev.eq_ab /\ ev.eq_bc /\ ~ev.eq_ac, {Tag("C15:not-transitive", ev.kind)})

(* --- C19: instance generators --------------------------------------------------- *)
GenerateClauses(T, prev, ev, post) ==
    IF ev.out # "ok" THEN {Tag("C19:generate-raised", ev.out)}
    ELSE {Tag("C19:shape", w) : w \in WellShapedWhy(T.gen, ev.inst, ev.nj, ev.nm)}
      \* "every machine id below M", also for the M the instance itself reports (its num_machines)
      \cup If(\E o \in AllOps(ev.inst) : \E m \in MSet(ev.inst, o) : ~(m \in 1..ev.nmrep),
              {Tag("C19:shape", "machine-id-not-below-reported-machine-count")})
      \cup If(\E i \in DOMAIN prev.names[ev.g] : prev.names[ev.g][i] = ev.name, {C("C19:name-reused")})
      \cup If(\E a, b \in DOMAIN post.outs : a < b /\ T.seeds[a] = T.seeds[b] /\ T.seeds[a] # -1
                  /\ ~(IsPrefixOf(post.outs[a], post.outs[b]) \/ IsPrefixOf(post.outs[b], post.outs[a])),
              {C("C19:same-seed-different-sequence")})
IterClauses(T, prev, ev, post) ==
       If(ev.out # "ok", {Tag("C19:iteration-raised", ev.out)})
  \cup If(ev.out = "ok" /\ ((\E i \in DOMAIN ev.counts : ev.counts[i] # ev.limit) \/ ev.len # ev.limit),
          {C("C19:iteration-count")})
  \cup If(~NoDup(ev.names), {C("C19:name-reused")})
IterProtoClauses(T, prev, ev, post) ==
       {Tag("C19:iteration-protocol", <<ev.limit, i, ev.calls[i].r>>) : i \in IterMismatch(ev.calls, 1, 0, ev.limit)}
  \cup {Tag("C19:iteration-raised", ev.calls[i].r) : i \in {k \in DOMAIN ev.calls : ev.calls[k].r \notin {"yield", "stop", "ok"}}}
  \cup If(~NoDup(ev.names), {C("C19:name-reused")})
  \cup If(ev.len # ev.limit, {C("C19:iteration-count")})
CoverageClauses(T, prev, ev, post) ==
       If(Rng(ev.seen) # 1..ev.M, {Tag("C19:machines-not-drawn-from-all", <<ev.M, ev.k>>)})

(* --- C20: Gantt charts and animation frames ------------------------------------- *)
PlotClauses(T, prev, ev, post) ==
    LET I == T.inst  sch == ev.sched
 IN
    IF ev.out # "ok" THEN {Tag("C20:plot-raised", ev.out)}
    ELSE IF "earlier_stable" \in DOMAIN ev /\ ~ev.earlier_stable THEN {C("C20:earlier-chart-changed-by-drawing-another")}
    ELSE IF ~WellTypedSchedule(I, sch) THEN {C("C20:bars")}
    ELSE LET present == {e[1] : e \in AllE(sch)}
             legJobs == [i \in DOMAIN ev.legend |-> ev.legend[i][1]]
             col == [j \in present |-> LET hits == {i \in DOMAIN ev.legend : ev.legend[i][1] = j}
                                       IN IF hits = {} THEN -1 ELSE ev.legend[MinOf(hits)][2]]
             want == UNION {{<<m, sch[m][i][3], Dur(I, EOp(sch[m][i])), col[sch[m][i][1]]>> : i \in DOMAIN sch[m]}
                            : m \in DOMAIN sch}
             axisEnd == IF ev.req_xlim # 0 THEN ev.req_xlim ELSE MakespanDef(I, sch)
         IN If(~SameBag(legJobs, present), {C("C20:legend-jobs")})
       \cup If(\E a, b \in DOMAIN ev.legend : a # b /\ ev.legend[a][2] = ev.legend[b][2], {C("C20:two-jobs-share-a-colour")})
       \cup If(Rng(ev.bars) # want \/ Len(ev.bars) # NumScheduled(sch), {C("C20:bars")})
       \cup If(axisEnd > 0 /\ (ev.xlim_lo # 0 \/ ev.xlim_hi # axisEnd \/ ev.last_tick # axisEnd), {C("C20:time-axis")})
FramesClauses(T, prev, ev, post) ==
    IF ev.out # "ok" THEN {Tag("C20:animation-raised", ev.out)}
    ELSE   If(Len(ev.ks) # ev.n, {Tag("C20:frame-count", ev.n)})
      \cup If(Len(ev.ks) = ev.n /\ ev.ks # [i \in 1..ev.n |-> i], {Tag("C20:frame-order", ev.n)})
      \* WHICH operations frame k shows: a digest of the first k operations of the harness' own dispatch record
      \cup If("cs" \in DOMAIN ev /\ Len(ev.ks) = ev.n /\ Len(ev.want_cs) = ev.n /\ ev.cs # ev.want_cs,
              {Tag("C20:frame-content", ev.n)})
      \cup If("axis_ends" \in DOMAIN ev /\ \E i \in DOMAIN ev.axis_ends : ev.axis_ends[i] # ev.final_makespan,
              {Tag("C20:frame-time-axis", ev.n)})

CreateOrGetCondClauses(T, prev, ev, post) ==
    LET P(x) == x.t = ev.cls /\ "f" \in DOMAIN x /\ Rng(ev.need) \subseteq DOMAIN x.f
        i == FirstIdx(prev.obs, P)
    IN If(ev.out # "ok", {Tag("C10:create-or-get-raised", ev.out)})
  \cup If(ev.out = "ok" /\ i # 0 /\ (ev.res # i \/ Len(post.obs) # Len(prev.obs)), {Tag("C10:create-or-get", ev.cls)})
  \cup If(ev.out = "ok" /\ i = 0 /\ (Len(post.obs) <= Len(prev.obs) \/ ev.res <= Len(prev.obs)), {Tag("C10:create-or-get-did-not-create", ev.cls)})

(* --- beyond the listed properties: instance transformations ("X:" clauses are    *)
(* informational; the input instance being left alone is C14's)                     *)
TransformClauses(T, prev, ev, post) ==
    LET I == T.inst  O == ev.result IN
       If(~post.instok, {Tag("X:transform-modified-its-input", ev.kind)})     \* (transformations are not in C14's list)
  \cup If(ev.out # "ok", {Tag("X:transform-raised", <<ev.kind, ev.out>>)})
  \cup (IF ev.out = "ok" THEN
          CASE ev.kind = "remove_machines" -> If(~RemoveMachinesOK(I, O, ev.n), {C("X:transform:remove-machines")})
            [] ev.kind = "add_noise" -> If(~AddNoiseOK(I, O, ev.lo, ev.hi, ev.level), {C("X:transform:add-noise")})
            [] ev.kind = "remove_jobs" -> If(~RemoveJobsOK(I, O, ev.target), {C("X:transform:remove-jobs")})
            [] OTHER -> {}
        ELSE {})

KindsOf(kinds, subs) == [i \in DOMAIN subs |-> IF subs[i] = 0 THEN "other" ELSE kinds[subs[i]]]

CreateClauses(T, prev, ev, post) ==
    IF "detached" \in DOMAIN ev
    THEN \* constructed with subscribe=False: never subscribed, whatever else is there
            If(ev.out # "ok", {C("C10:create-refused")})
       \cup If(post.subs # prev.subs, {C("C10:detached-observer-was-subscribed")})
    ELSE
    LET conflict == SingletonConflict(KindsOf(T.kinds, prev.subs), ev.k)
        ok == ev.out = "ok"
    IN If(ok /\ conflict, {C("C10:singleton-accepted")})
  \cup If(~ok /\ ~conflict, {C("C10:create-refused")})
  \cup If(ok /\ post.subs # Append(prev.subs, ev.o), {C("C10:subscribe")})
  \cup If(~ok /\ post.subs # prev.subs, {C("C10:subscribers-changed")})
  \cup If(post.core # prev.core, {C("C10:create-changed-state")})

UnsubClauses(T, prev, ev, post) ==
       If(ev.out # "ok", {C("C10:unsubscribe-raised")})
  \cup If(post.subs # SelectSeq(prev.subs, LAMBDA x : x # ev.o), {C("C10:unsubscribe")})
  \cup If(post.core # prev.core, {C("C10:unsubscribe-changed-state")})

(* unsubscribing one of several built-in observers: identities (not classes, not states) decide who leaves *)
UnsubBuiltinClauses(T, prev, ev, post) ==
       If(ev.out # "ok", {C("C10:unsubscribe-raised")})
  \cup If(ev.after # SelectSeq(ev.before, LAMBDA x : x # ev.target), {C("C10:unsubscribe")})
  \cup If(post.core # prev.core, {C("C10:unsubscribe-changed-state")})

SubBuiltinClauses(T, prev, ev, post) ==
       If(ev.out # "ok", {C("C10:subscribe-raised")})
  \cup If(ev.after # Append(ev.before, ev.target), {C("C10:subscribe")})
  \cup If(post.core # prev.core, {C("C10:subscribe-changed-state")})

CreateOrGetClauses(T, prev, ev, post) ==
    LET i == FirstInstanceIdx(KindsOf(T.kinds, prev.subs), ev.cls)
    IN If(ev.out # "ok", {C("C10:create-or-get-raised")})
  \cup If(i # 0 /\ (ev.res # prev.subs[i] \/ ~ev.same_subs), {C("C10:create-or-get")})
  \cup If(post.core # prev.core, {C("C10:create-or-get-changed-state")})

(* prev = the latest logged state before the event, post = the state logged   *)
(* with it (the recorder omits a post-state identical to the previous one)    *)
DClauses0(T, l, prev, post) ==
    LET ev == T.events[l] IN
    \* the operators below are only defined on states that mention operations/jobs/machines of the
    \* instance: a logged state that does not is reported as such (for the property being checked, and C01)
    IF "core" \in DOMAIN post /\ (~WellTypedState(T.inst, post.core)
                                   \/ (l > 1 /\ "core" \in DOMAIN prev /\ ~WellTypedState(T.inst, prev.core)))
    THEN {C("C01:logged-state-malformed"), C(T.owner \o ":logged-state-malformed")} ELSE
    IF l = 1 THEN (IF ev.a = "Init" THEN InitClauses(T, ev, post)
                   ELSE IF ev.a = "GenInit" THEN {} ELSE {C("M:first-event-not-init")})
    ELSE CASE ev.a = "Dispatch"    -> DispatchClauses(T, prev, ev, post)
                                       \cup (IF T.events[l - 1].a \in {"Dispatch", "EnvStep"} /\ T.events[l - 1].out # "ok"
                                                 /\ ev.out = "ok" /\ ValidRequest(T.inst, prev.core, ev.j, ev.p, ev.m)
                                                 /\ post.core # DispatchNext(T.inst, prev.core, ev.j, ev.m)
                                             THEN {C("C09:valid-request-after-a-rejected-one-misbehaves")} ELSE {})
           [] ev.a = "Reset"       -> ResetClauses(T, prev, ev, post)
           [] ev.a = "Query"       -> QueryClauses(T, prev, ev, post)
           [] ev.a = "QueryArg"    -> QueryArgClauses(T, prev, ev, post)
           [] ev.a = "Filter"      -> FilterClauses(T, prev, ev, post)
           [] ev.a = "RuleStep"    -> RuleStepClauses(T, prev, ev, post)
           [] ev.a = "RulePicks"   -> RulePicksClauses(T, prev, ev, post)
           [] ev.a = "ScoreRule"   -> ScoreRuleClauses(T, prev, ev, post)
           [] ev.a = "SolverCall"  -> SolverCallClauses(T, prev, ev, post)
           [] ev.a = "BestFiltered" -> BestFilteredClauses(T, prev, ev, post)
           [] ev.a = "CpSat"       -> CpSatClauses(T, prev, ev, post)
           [] ev.a = "EnvStep"     -> EnvStepClauses(T, prev, ev, post)
           [] ev.a = "EnvReset"    -> EnvResetClauses(T, prev, ev, post)
           [] ev.a = "EnvFreshRun" -> EnvFreshRunClauses(T, prev, ev, post)
           [] ev.a = "MultiReset"  -> MultiResetClauses(T, prev, ev, post)
           [] ev.a = "MultiResetFailed" -> MultiResetFailedClauses(T, prev, ev, post)
           [] ev.a = "EnvCtorFailed" -> EnvCtorFailedClauses(T, prev, ev, post)
           [] ev.a = "Transform"   -> TransformClauses(T, prev, ev, post)
           [] ev.a = "Views"       -> ViewsClauses(T, prev, ev, post)
           [] ev.a = "RoundTrip"   -> RoundTripClauses(T, prev, ev, post)
           [] ev.a = "FromSeqs"    -> FromSeqsClauses(T, prev, ev, post)
           [] ev.a = "SchedRoundTrip" -> SchedRoundTripClauses(T, prev, ev, post)
           [] ev.a = "Eq"          -> EqClauses(T, prev, ev, post)
           [] ev.a = "EqTriple"    -> EqTripleClauses(T, prev, ev, post)
           [] ev.a = "NewGen"      -> {}
           [] ev.a = "Generate"    -> GenerateClauses(T, prev, ev, post)
           [] ev.a = "Iter"        -> IterClauses(T, prev, ev, post)
           [] ev.a = "Coverage"    -> CoverageClauses(T, prev, ev, post)
           [] ev.a = "IterProto"   -> IterProtoClauses(T, prev, ev, post)
           [] ev.a = "Plot"        -> PlotClauses(T, prev, ev, post)
           [] ev.a = "Frames"      -> FramesClauses(T, prev, ev, post)
           [] ev.a = "Graph"       -> GraphClauses(T, prev, ev, post)
           [] ev.a = "Solved"      -> SolvedClauses(T, prev, ev, post)
           [] ev.a = "CreateObs"   -> CreateObsClauses(T, prev, ev, post)
           [] ev.a = "FreshRun"    -> FreshRunClauses(T, prev, ev, post)
           [] ev.a = "Replay"      -> ReplayClauses(T, prev, ev, post)
           [] ev.a = "Create"      -> CreateClauses(T, prev, ev, post)
           [] ev.a = "Unsub"       -> UnsubClauses(T, prev, ev, post)
           [] ev.a = "UnsubBuiltin" -> UnsubBuiltinClauses(T, prev, ev, post)
           [] ev.a = "SubBuiltin"  -> SubBuiltinClauses(T, prev, ev, post)
           [] ev.a = "CreateOrGetCond" -> CreateOrGetCondClauses(T, prev, ev, post)
           [] ev.a = "CreateOrGet" -> CreateOrGetClauses(T, prev, ev, post)
           [] OTHER -> {C("M:unknown-event")}

(* C14's last sentence is about EVERY call: whatever the event was, the instance object (operations, ids, *)
(* name, metadata and every cached view handed out by reference) must still be what it was              *)
DClauses(T, l, prev, post) ==
    DClauses0(T, l, prev, post)
    \cup (IF "instok" \in DOMAIN post /\ post.instok = FALSE /\ T.events[l].a \notin {"Transform"}
          THEN {C("C14:instance-modified")} ELSE {})
=============================================================================
