"""Seeded-defect bookkeeping.

  python -m harness.seedeval adopt <pid> <n>    verify /tmp/seed_out/<pid>/patch<n>.diff + demo<n>.py in a scratch
                                                worktree (tests pass with it, demo fails with it and passes without)
                                                and keep it as /verif/seeded/<pid>-<n>/
  python -m harness.seedeval run <seed-id> [tier] [check-id]
                                                apply the patch to /repo, run the property's check, undo the patch,
                                                record the outcome in seeded/<seed-id>/meta.json
  python -m harness.seedeval iso <seed-id> [check-ids] [tier] [meta-key]
                                                the same without touching /repo: scratch worktree with the patch + scratch copy
                                                of /verif run with VERIF_REPO/PYTHONPATH pointing at the worktree (so several
                                                evaluations can run side by side); check-ids = comma list, e.g. for a cross-check
  python -m harness.seedeval table              detection table (markdown)
"""
from __future__ import annotations

import json
import os
import shutil
import subprocess
import sys
import time
from pathlib import Path

VERIF = Path(__file__).resolve().parent.parent
SEEDED = VERIF / "seeded"
REPO = "/repo"
ENV = dict(os.environ, PYTHONDONTWRITEBYTECODE="1", MPLBACKEND="Agg")


def sh(cmd, cwd=None, env=None, timeout=3600):
    p = subprocess.run(cmd, shell=True, cwd=cwd, env=env or ENV, stdout=subprocess.PIPE, stderr=subprocess.STDOUT,
                       text=True, timeout=timeout)
    return p.returncode, p.stdout


def adopt(pid, n, src=None, store_as=None):
    src = Path(src or f"/tmp/seed_out/{pid}")
    patch, demo = src / f"patch{n}.diff", src / f"demo{n}.py"
    if not patch.exists() or not demo.exists():
        print("missing", patch, demo)
        return 2
    wt = f"/tmp/wt_verify_{pid}_{n}"
    sh(f"git -C {REPO} worktree remove --force {wt}")
    rc, out = sh(f"git -C {REPO} worktree add -q --detach {wt} HEAD")
    if rc:
        print(out)
        return 2
    env = dict(ENV, PYTHONPATH=wt)
    result = {}
    try:
        rc0, o0 = sh(f"/venv/bin/python {demo}", cwd=wt, env=env, timeout=900)
        result["demo_on_clean_tree"] = rc0
        rc, out = sh(f"git -C {wt} apply {patch}")
        if rc:
            print("patch does not apply:", out)
            return 2
        rc1, o1 = sh(f"/venv/bin/python {demo}", cwd=wt, env=env, timeout=900)
        result["demo_with_patch"] = rc1
        rct, ot = sh("/venv/bin/python -m pytest -q -p no:cacheprovider -x 2>&1 | tail -3", cwd=wt, env=env, timeout=1800)
        result["tests_with_patch"] = ot.strip().splitlines()[-1] if ot.strip() else ""
        ok = rc0 == 0 and rc1 != 0 and " passed" in result["tests_with_patch"] and "failed" not in result["tests_with_patch"]
    finally:
        sh(f"git -C {REPO} worktree remove --force {wt}")
        shutil.rmtree(wt, ignore_errors=True)
    print(json.dumps(result), "->", "ADOPT" if ok else "REJECT")
    if not ok:
        print("demo with patch output tail:", o1[-500:] if 'o1' in dir() else "")
        return 1
    d = SEEDED / f"{pid}-{store_as or n}"
    d.mkdir(parents=True, exist_ok=True)
    shutil.copy(patch, d / "patch.diff")
    shutil.copy(demo, d / "demo.py")
    notes = src / "notes.md"
    meta = {"property": pid, "source": "independent sub-agent given only the property text and a scratch worktree",
            "verified": result, "verified_how": "fresh worktree of /repo HEAD: demo exits 0 on the clean tree, non-zero with the "
            "patch; full test suite passes with the patch", "needs": "", "detected_by": {}}
    if notes.exists():
        shutil.copy(notes, d / "notes.md")
    (d / "meta.json").write_text(json.dumps(meta, indent=1))
    return 0


def run(seed_id, tier="quick", check_id=None):
    d = SEEDED / seed_id
    meta = json.loads((d / "meta.json").read_text())
    pid = check_id or meta["property"]
    rc, out = sh(f"git -C {REPO} status --porcelain")
    if out.strip():
        print("/repo is not clean; refusing")
        return 2
    rc, out = sh(f"git -C {REPO} apply {d / 'patch.diff'}")
    if rc:
        print("patch does not apply", out)
        return 2
    t0 = time.time()
    try:
        rc, out = sh(f"./check {pid} --tier {tier}", cwd=str(VERIF), timeout=7200)
    finally:
        sh(f"git -C {REPO} checkout -- .")
    lines = [ln for ln in out.splitlines() if ln.startswith("VIOLATION") or ln.strip().startswith("clause=")]
    clauses = sorted({ln.split("clause=")[1].split(" at ")[0] for ln in lines if "clause=" in ln})
    meta.setdefault("detected_by", {})[f"{pid}:{tier}"] = {
        "exit": rc, "detected": rc == 1, "clauses": clauses[:8], "wall_s": round(time.time() - t0)}
    (d / "meta.json").write_text(json.dumps(meta, indent=1))
    print(seed_id, f"check {pid} {tier}: exit {rc}", "DETECTED" if rc == 1 else ("MACHINERY" if rc == 2 else "missed"), clauses[:4])
    return 0


def run_isolated(seed_id, checks=None, tier="quick", key="detected_by"):
    """Evaluate a seeded change without touching /repo: scratch worktree + scratch copy of /verif, both removed afterwards.
    `checks` is a comma-separated list of check ids (default: the seeded change's own property)."""
    d = SEEDED / seed_id
    clean = seed_id == "clean"          # no patch: the checks must stay quiet (run beside whatever else is going on)
    meta = {} if clean else json.loads((d / "meta.json").read_text())
    pids = checks.split(",") if checks else [meta["property"]]
    tag = f"{seed_id}_{os.getpid()}"
    wt, vc = f"/tmp/wte_{tag}", f"/tmp/vce_{tag}"
    rc, out = sh(f"git -C {REPO} worktree add -q --detach {wt} HEAD")
    if rc:
        print(out)
        return 2
    results = {}
    try:
        rc, out = (0, "") if clean else sh(f"git -C {wt} apply {d / 'patch.diff'}")
        if rc:
            print("patch does not apply", out)
            return 2
        sh(f"rsync -a --exclude .git --exclude .work --exclude seeded --exclude evidence/replay --exclude __pycache__ "
           f"--exclude states {VERIF}/ {vc}/")
        env = dict(ENV, PYTHONPATH=wt, VERIF_REPO=wt)
        for pid in pids:
            t0 = time.time()
            rc, out = sh(f"./check {pid} --tier {tier}", cwd=vc, env=env, timeout=7200)
            lines = [ln for ln in out.splitlines() if ln.startswith("VIOLATION") or ln.strip().startswith("clause=")]
            clauses = sorted({ln.split("clause=")[1].split(" at ")[0] for ln in lines if "clause=" in ln})
            results[f"{pid}:{tier}"] = {"exit": rc, "detected": rc == 1, "clauses": clauses[:8], "wall_s": round(time.time() - t0)}
            if rc == 2:
                results[f"{pid}:{tier}"]["tail"] = out[-600:]
            print(seed_id, f"check {pid} {tier}: exit {rc}", "DETECTED" if rc == 1 else ("MACHINERY" if rc == 2 else "quiet"),
                  clauses[:4], flush=True)
    finally:
        sh(f"git -C {REPO} worktree remove --force {wt}")
        shutil.rmtree(wt, ignore_errors=True)
        shutil.rmtree(vc, ignore_errors=True)
    if clean:
        return 0 if all(v["exit"] == 0 for v in results.values()) else 1
    meta = json.loads((d / "meta.json").read_text())
    meta.setdefault(key, {}).update(results)
    (d / "meta.json").write_text(json.dumps(meta, indent=1))
    return 0


def table():
    rows = []
    for d in sorted(SEEDED.iterdir()):
        m = d / "meta.json"
        if not m.exists():
            continue
        meta = json.loads(m.read_text())
        det = meta.get("detected_by", {})
        cell = "; ".join(f"{k}: {'caught ' + ', '.join(v['clauses'][:2]) if v['detected'] else 'MISSED'}" for k, v in det.items())
        rows.append(f"| {d.name} | {meta['property']} | {meta.get('needs', '')[:90]} | {cell} |")
    print("| seeded change | property | needs | checks |\n|---|---|---|---|")
    print("\n".join(rows))


if __name__ == "__main__":
    a = sys.argv[1:]
    if a[0] == "adopt":
        sys.exit(adopt(a[1], a[2], *a[3:]))
    if a[0] == "run":
        sys.exit(run(*a[1:]))
    if a[0] == "iso":
        sys.exit(run_isolated(*a[1:]))
    if a[0] == "table":
        table()
