"""Projection of observer objects onto abstract records (filled in per
observer family; unknown classes project to their class name only)."""
from __future__ import annotations

PROJECTORS = {}


def projector(*names):
    def deco(fn):
        for n in names:
            PROJECTORS[n] = fn
        return fn
    return deco


def project_observer(o) -> dict:
    name = type(o).__name__
    fn = PROJECTORS.get(name)
    rec = {"t": name}
    if fn is not None:
        rec.update(fn(o))
    return rec
