------------------------------- MODULE Graphs -------------------------------
(***************************************************************************)
(* Graph encodings (job_shop_lib/graphs) and the residual graph updater.   *)
(*                                                                         *)
(* Nodes are numbered 1..N in the order the builders add them: operation   *)
(* nodes first (node id = operation id), then the builder's own nodes.     *)
(* A node is <<type, entity>>; an edge is <<u, v, ty>> with ty in          *)
(* {"conj", "disj", "none"}.                                               *)
(***************************************************************************)
EXTENDS Observers

Builders == {"disjunctive", "agent_task", "agent_task_with_jobs", "complete_agent_task"}

OpNodes(I) == [i \in 1..NumOps(I) |-> <<"operation", i>>]
MachNodes(I) == [m \in Machines(I) |-> <<"machine", m>>]
JobNodes(I) == [j \in Jobs(I) |-> <<"job", j>>]
GraphNodes(b, I) ==
    CASE b = "disjunctive"          -> OpNodes(I) \o << <<"source", 0>>, <<"sink", 0>> >>
      [] b = "solved"               -> OpNodes(I) \o << <<"source", 0>>, <<"sink", 0>> >>
      [] b = "agent_task"           -> OpNodes(I) \o MachNodes(I)
      [] b = "agent_task_with_jobs" -> OpNodes(I) \o MachNodes(I) \o JobNodes(I)
      [] b = "complete_agent_task"  -> OpNodes(I) \o MachNodes(I) \o JobNodes(I) \o << <<"global", 0>> >>
NodeOfOp(I, o) == OpId(I, o)
NodeOfMachine(I, m) == NumOps(I) + m
NodeOfJob(I, j) == NumOps(I) + NM(I) + j
GlobalNode(I) == NumOps(I) + NM(I) + Len(I) + 1
SourceNode(I) == NumOps(I) + 1
SinkNode(I) == NumOps(I) + 2

Both(S) == S \cup {<<e[2], e[1]>> : e \in S}
ConjPairs(I) == {<<NodeOfOp(I, <<o[1], o[2]>>), NodeOfOp(I, <<o[1], o[2] + 1>>)>> :
                    o \in {x \in AllOps(I) : x[2] < Len(I[x[1]])}}
SourceSinkPairs(I) == {<<SourceNode(I), NodeOfOp(I, <<j, 1>>)>> : j \in Jobs(I)}
                      \cup {<<NodeOfOp(I, <<j, Len(I[j])>>), SinkNode(I)>> : j \in Jobs(I)}
DisjPairs(I) == UNION {{<<NodeOfOp(I, a), NodeOfOp(I, b)>> :
                           a \in {x \in AllOps(I) : m \in MSet(I, x)}, b \in {x \in AllOps(I) : m \in MSet(I, x)}}
                        : m \in Machines(I)} \ {<<n, n>> : n \in 1..NumOps(I)}
OpMachinePairs(I) == Both(UNION {{<<NodeOfMachine(I, m), NodeOfOp(I, o)>> : o \in {x \in AllOps(I) : m \in MSet(I, x)}}
                                 : m \in Machines(I)})
MachMachPairs(I) == {<<NodeOfMachine(I, a), NodeOfMachine(I, b)>> : a \in Machines(I), b \in Machines(I)}
                    \ {<<NodeOfMachine(I, a), NodeOfMachine(I, a)>> : a \in Machines(I)}
SameJobPairs(I) == {<<NodeOfOp(I, a), NodeOfOp(I, b)>> : a \in AllOps(I), b \in AllOps(I)}
                   \cap {p \in (1..NumOps(I)) \X (1..NumOps(I)) : p[1] # p[2]
                            /\ AllOpsSeq(I)[p[1]][1] = AllOpsSeq(I)[p[2]][1]}
OpJobPairs(I) == Both({<<NodeOfJob(I, o[1]), NodeOfOp(I, o)>> : o \in AllOps(I)})
JobJobPairs(I) == {<<NodeOfJob(I, a), NodeOfJob(I, b)>> : a \in Jobs(I), b \in Jobs(I)}
                  \ {<<NodeOfJob(I, a), NodeOfJob(I, a)>> : a \in Jobs(I)}
GlobalPairs(I) == Both({<<GlobalNode(I), NodeOfMachine(I, m)>> : m \in Machines(I)}
                       \cup {<<GlobalNode(I), NodeOfJob(I, j)>> : j \in Jobs(I)})

(* untyped edge set of each builder *)
GraphPairs(b, I) ==
    CASE b = "disjunctive"          -> DisjPairs(I) \cup ConjPairs(I) \cup SourceSinkPairs(I)
      [] b = "agent_task"           -> OpMachinePairs(I) \cup MachMachPairs(I) \cup SameJobPairs(I)
      [] b = "agent_task_with_jobs" -> OpMachinePairs(I) \cup MachMachPairs(I) \cup OpJobPairs(I) \cup JobJobPairs(I)
      [] b = "complete_agent_task"  -> OpMachinePairs(I) \cup OpJobPairs(I) \cup GlobalPairs(I)
(* the type an edge must carry.  A directed graph holds one edge per ordered    *)
(* pair: where a job-chain edge coincides with a disjunctive one (consecutive   *)
(* operations of a job on one machine) the job-chain edge - a hard precedence - *)
(* must stay conjunctive; the reverse direction is disjunctive.                 *)
EdgeTypeOK(b, I, e) ==
    LET p == <<e[1], e[2]>> IN
    IF b = "disjunctive"
    THEN IF p \in ConjPairs(I) \cup SourceSinkPairs(I) THEN e[3] = "conj" ELSE e[3] = "disj"
    ELSE IF b = "solved"      \* (the statement types the builders' graphs only: either attribute is accepted where a
                              \*  machine-order arc coincides with a job-chain edge)
    THEN IF p \in SourceSinkPairs(I) THEN e[3] = "conj" ELSE e[3] \in {"conj", "disj"}
    ELSE e[3] = "none"

(* solved disjunctive graph of a schedule *)
MachineOrderPairs(I, sched) ==
    UNION {{<<NodeOfOp(I, EOp(sched[m][i])), NodeOfOp(I, EOp(sched[m][i + 1]))>> : i \in 1..(Len(sched[m]) - 1)}
           : m \in DOMAIN sched}
SolvedPairs(I, sched) == ConjPairs(I) \cup SourceSinkPairs(I) \cup MachineOrderPairs(I, sched)

(* acyclicity and the longest duration-weighted source-to-sink path *)
Succ(P, n) == {e[2] : e \in {x \in P : x[1] = n}}
RECURSIVE ReachFrom(_, _, _)
ReachFrom(P, frontier, seen) ==
    IF frontier = {} THEN seen
    ELSE LET nxt == (UNION {Succ(P, n) : n \in frontier}) \ seen
         IN ReachFrom(P, nxt, seen \cup nxt)
Acyclic(P, N) == \A n \in 1..N : n \notin ReachFrom(P, {n}, {})
NodeWeight(I, n) == IF n <= NumOps(I) THEN Dur(I, AllOpsSeq(I)[n]) ELSE 0
RECURSIVE LongestFrom(_, _, _)
LongestFrom(I, P, n) ==      \* only evaluated on acyclic P
    NodeWeight(I, n) + MaxOr0({LongestFrom(I, P, k) : k \in Succ(P, n)})
LongestPath(I, P) == LongestFrom(I, P, SourceNode(I))

-----------------------------------------------------------------------------
(* residual graph updater: what is removed after an update that explicitly     *)
(* removes the node set X (when X is empty nothing happens): X and every node   *)
(* left without a neighbour                                                     *)
Neighbours(P, n) == {e[2] : e \in {x \in P : x[1] = n}} \cup {e[1] : e \in {x \in P : x[2] = n}}
CloseRemoved(P, N, R) == R \cup {n \in (1..N) \ R : Neighbours(P, n) \subseteq R}
ResidualAfter(P, N, removed, X) ==
    IF X \subseteq removed THEN removed ELSE CloseRemoved(P, N, removed \cup X)
LivePairs(P, R) == {e \in P : e[1] \notin R /\ e[2] \notin R}

(* the updater record: [t, removed (sorted node ids), builder, rm_machines, rm_jobs, dep (index of its IsCompleted observer)] *)
IsResidual(o) == o.t = "ResidualGraphUpdater"
BuilderHasMachines(b) == b # "disjunctive"
BuilderHasJobs(b) == b \in {"agent_task_with_jobs", "complete_agent_task"}
ResidualExplicit(I, s, F, L, o) ==
    {NodeOfOp(I, x) : x \in CompletedOps(I, s, F)}
    \cup (IF o.rm_machines /\ BuilderHasMachines(o.builder) /\ o.dep # 0
          THEN {NodeOfMachine(I, m) : m \in {x \in Machines(I) : L[o.dep].f[MACH][x][1] = 1}} ELSE {})
    \cup (IF o.rm_jobs /\ BuilderHasJobs(o.builder) /\ o.dep # 0
          THEN {NodeOfJob(I, j) : j \in {x \in Jobs(I) : L[o.dep].f[JOBS][x][1] = 1}} ELSE {})
ResidualUpd(I, s, F, L, o) ==
    LET P == GraphPairs(o.builder, I)  N == Len(GraphNodes(o.builder, I))
    IN [o EXCEPT !.removed = SetAsSeq(ResidualAfter(P, N, Rng(o.removed), ResidualExplicit(I, s, F, L, o)))]
NotifyAllG(I, s, F, subs, e) ==
    LET L == NotifyAll(I, s, F, subs, e)
    IN [i \in DOMAIN L |-> IF IsResidual(L[i]) THEN ResidualUpd(I, s, F, L, L[i]) ELSE L[i]]
ResetAllG(I, s, F, subs, mode) ==
    LET L == ResetAll(I, s, F, subs, mode)
    IN [i \in DOMAIN L |-> IF IsResidual(L[i]) THEN [L[i] EXCEPT !.removed = <<>>] ELSE L[i]]
=============================================================================
