------------------------------ MODULE Gen_DQ ------------------------------
(* Families for the behaviour generators (kept small: TLC enumerates every  *)
(* initial state even in simulation mode).                                  *)
EXTENDS Gen_Dispatcher
FamA == Family({<<2, 1>>, <<1, 1, 1>>}, MSeqs(2), {0, 1, 2})
        \cup Family({<<2, 2>>}, MSeqs(2), {1, 2})
FamB == Family({<<2, 1>>, <<1, 1>>}, MSeqs(2), {0, 1, 2})
FamC == Family({<<2, 1>>}, SingleMSeqs(2), {0, 1, 2}) \cup Family({<<1, 1>>}, MSeqs(2), {1, 2})
FamM3 == Family({<<2, 1>>, <<1, 1, 1>>}, MSeqs(3), {0, 1, 3})
FamNF == Family({<<2, 1>>, <<1, 1, 1>>, <<2, 2>>, <<3>>, <<1>>, <<1, 1>>}, SingleMSeqs(2), {0, 1, 2})
         \cup Family({<<2, 1>>, <<1, 1, 1>>}, SingleMSeqs(3), {0, 1, 3})
FamP == Family({<<2, 1>>, <<1, 1, 1>>, <<2, 2>>}, MSeqs(2), {1, 2}) \cup Family({<<2, 1>>, <<1, 1, 1>>}, MSeqs(3), {1, 3})
FiltA == FiltNone \cup FiltSingles \cup FiltDefault
FiltB == FiltNone \cup FiltDefault
FiltAll2 == FiltNone \cup FiltSingles \cup FiltPairs
K0 == <<>>
K3 == <<"rec", "hist", "histsub">>
K4 == <<"rec", "histsub", "hist", "rec">>
=============================================================================
