"""Check framework: stages (model checking on the specification, behaviour
generation, replay, trace monitoring), clause attribution, known findings,
evidence, exit codes.

exit 0  - property held on everything explored (known findings are printed)
exit 1  - a violation not listed in known_findings.json (VIOLATION line)
exit 2  - the machinery failed (never a silent pass)
"""
from __future__ import annotations

import json
import time
import traceback
from pathlib import Path

from . import common
from .common import MachineryError, REPLAY, SPEC, VERIF, run_tlc, write_evidence

CONST_DEFAULTS = {
    "MutStart": '"ok"', "MutCache": '"ok"', "MutValidate": '"ok"', "MutNotify": '"ok"',
}


def cfg_text(spec, consts: dict, invariants=(), constraints=(), extra_lines=()):
    lines = [f"SPECIFICATION {spec}", "CONSTANTS"]
    for k, v in consts.items():
        v = str(v)
        lines.append(f"  {k} <- {v[2:].strip()}" if v.startswith("<-") else f"  {k} = {v}")
    for c in constraints:
        lines.append(f"CONSTRAINT {c}")
    for i in invariants:
        lines.append(f"INVARIANT {i}")
    lines.extend(extra_lines)
    lines.append("CHECK_DEADLOCK FALSE")
    return "\n".join(lines) + "\n"


class Violation:
    def __init__(self, pid, clause, detail="", where="", trace=None, behaviour=None, source=""):
        self.pid, self.clause, self.detail = pid, clause, detail
        self.where, self.trace, self.behaviour, self.source = where, trace, behaviour, source

    def key(self):
        return (self.clause, self.detail)


class Check:
    """One run of one property's check."""

    def __init__(self, pid: str, level: str):
        self.pid = pid
        self.level = level
        self.tier = common.tier()
        self.seed = common.seed()
        self.t0 = time.time()
        self.states = 0
        self.transitions = 0
        self.mc_runs = []
        self.traces_validated = 0
        self.events_validated = 0
        self.behaviours_from_tlc = 0
        self.distinct_cases = set()
        self.samples = []
        self.violations: list[Violation] = []
        self.foreign = {}
        self.assumptions = []
        self.notes = {}
        self.trace_sources = {}
        self.event_kinds = {}
        self.known = load_known()
        self.exhaustive = False

    # -- stage: model checking the specification ---------------------------
    def mc(self, module, spec, consts, invariants, *, constraints=(), name=None,
           workers=16, timeout=1500, heap="12g", expect_violation=None, fpmem="0.01"):
        """Model-check `invariants` (all owned by this property) on the spec.
        expect_violation: invariant name that a known finding says is violated
        on the implementation-shaped specification."""
        name = name or f"{self.pid}-{module.replace('.tla','')}-{spec}"
        c = dict(CONST_DEFAULTS)
        c.update(consts)
        cfgp = SPEC / f".gen_{name}.cfg"
        cfgp.write_text(cfg_text(spec, c, invariants, constraints))
        try:
            r = run_tlc(module, cfgp.name, name, workers=workers, timeout=timeout, heap=heap, fpmem=fpmem)
        finally:
            cfgp.unlink(missing_ok=True)
        rec = {"module": module, "spec": spec, "invariants": list(invariants),
               "states_generated": r.generated, "distinct_states": r.distinct,
               "wall_s": round(r.wall, 1), "violated": r.violated, "complete": r.finished_ok}
        self.mc_runs.append(rec)
        self.states += r.distinct
        self.transitions += r.generated
        if r.violated:
            for inv in r.violated:
                self.violations.append(Violation(
                    self.pid, f"{self.pid}:spec:{inv}", "", where=f"TLC {module}/{spec}",
                    trace={"tlc_output_tail": r.out[-6000:]}, source="model-checking"))
        elif not r.finished_ok:
            raise MachineryError(f"TLC did not finish {module}/{spec} (rc={r.rc}):\n" + r.out[-3000:])
        return r

    # -- stage: machine-checked proof (TLAPS) ---------------------------------------
    def tlaps_proof(self, module="DispatcherProof.tla", timeout=1200, theorem="Safety == Spec => []IndInv"):
        """Spec => []IndInv for arbitrary finite job/machine sets, lengths, durations, machine sets
        (DispatcherProof.tla); IterSpec => [] pass-yields-exactly-Limit for every limit (GeneratorIterProof.tla)."""
        import re
        import subprocess
        import shutil
        out = ""
        for attempt in (1, 2):
            wd = common.workdir(f"tlaps-{self.pid}")
            cmd = ["tlapm", "--cache-dir", str(wd), "--stretch", "6" if attempt == 1 else "15", "--threads", "8",
                   "-I", "/opt/veriftools/tlapm/lib/tlaps", "-I", str(SPEC), module]
            t0 = time.time()
            _rc, out = common.run_group(cmd, cwd=SPEC / "tlaps", timeout=timeout)
            shutil.rmtree(wd, ignore_errors=True)
            m = re.search(r"All (\d+) obligations? proved", out)
            if m:
                n = int(m.group(1))
                self.notes.setdefault("tlaps_proofs", []).append({"module": module, "theorem": theorem, "obligations": n})
                self.notes["tlaps_proof"] = {"module": module, "theorem": theorem,
                                             "obligations": n, "discharged": n, "wall_s": round(time.time() - t0, 1),
                                             "backends": "SMT (Z3), Zenon, Isabelle, PTL as chosen by tlapm"}
                return n
        raise MachineryError("tlapm did not prove " + module + ":\n" + out[-2000:])

    # -- stage: inductive invariant with Apalache (thorough tier) -----------------
    def apalache_inductive(self, module="DispatcherInd.tla", cinit="ConstInit", init="Init", ind="IndInv",
                           timeout=3000):
        """Init => IndInv and IndInv /\\ Next => IndInv' (symbolic durations and machine sets)."""
        import subprocess
        import shutil
        wd = common.workdir(f"apa-{self.pid}")
        results = []
        for (label, args) in (("base", [f"--init={init}", "--length=0"]),
                              ("step", ["--init=IndInit", "--length=1"])):
            cmd = ["apalache-mc", "check", f"--cinit={cinit}", f"--inv={ind}", f"--out-dir={wd}"] + args + [module]
            t0 = time.time()
            _rc, out = common.run_group(cmd, cwd=SPEC / "apalache", timeout=timeout)
            ok = "The outcome is: NoError" in out
            results.append({"obligation": f"{module}:{label}", "discharged": ok, "wall_s": round(time.time() - t0, 1)})
            if not ok and "The outcome is: Error" in out:
                self.violations.append(Violation(self.pid, f"{self.pid}:spec:apalache-{label}", "",
                                                 where=f"apalache {module}", trace={"output_tail": out[-3000:]},
                                                 source="apalache"))
            elif not ok:
                raise MachineryError(f"apalache {label} did not finish:\n" + out[-2000:])
        shutil.rmtree(wd, ignore_errors=True)
        self.notes["apalache_inductive_invariant"] = results
        return results

    # -- stage: monitoring recorded traces ----------------------------------
    def monitor(self, traces, *, module="Trace_D.tla", cfg="Trace_D.cfg", name=None,
                source="", behaviours=None, case_key=None, workers=16, timeout=1500):
        from . import tlcio
        if not traces:
            return {}
        name = name or f"{self.pid}-{source or 'traces'}"
        for t in traces:
            t["owner"] = self.pid
        verdicts, r = tlcio.monitor(module, cfg, name, traces, workers=workers, timeout=timeout)
        self.states += r.distinct
        self.transitions += r.generated
        self.traces_validated += len(traces)
        nev = sum(len(t.get("events", ())) for t in traces)
        self.events_validated += nev
        self.trace_sources[source or name] = self.trace_sources.get(source or name, 0) + len(traces)
        for t in traces:
            for e in t.get("events", ()):
                key = e.get("a", "?") + ("" if e.get("out", "ok") == "ok" else ":rejected")
                self.event_kinds[key] = self.event_kinds.get(key, 0) + 1
        by_tid = {t["tid"]: t for t in traces}
        for t in traces:
            self.distinct_cases.add(case_key(t) if case_key else default_case_key(t))
        if len(self.samples) < 3 and traces:
            self.samples.append(sample_of(traces[len(traces) // 2]))
        pref = self.pid + ":"
        for tid, errs in verdicts.items():
            for (l, clause, detail) in errs:
                if clause.startswith("M:"):
                    raise MachineryError(f"monitor machinery clause {clause} in trace {tid} event {l}")
                if clause.startswith(pref):
                    beh = behaviours.get(tid) if behaviours else None
                    self.violations.append(Violation(
                        self.pid, clause, detail, where=f"trace {tid} event {l} ({source})",
                        trace=by_tid[tid], behaviour=beh, source=source))
                else:
                    self.foreign[clause] = self.foreign.get(clause, 0) + 1
        return verdicts

    # -- finish ----------------------------------------------------------------
    def finish(self, rule: str, extra_cov=None) -> int:
        wall = time.time() - self.t0
        unknown, known_hits = [], {}
        for v in self.violations:
            k = match_known(self.known, self.pid, v)
            if k is None:
                unknown.append(v)
            else:
                known_hits.setdefault(k["id"], [k, 0])[1] += 1
        for kid, (k, n) in sorted(known_hits.items()):
            print(f"KNOWN-FINDING: property={self.pid} {k['what']} [{kid}; {n} occurrence(s) this run]")
        replay_paths = []
        if unknown:
            REPLAY.mkdir(parents=True, exist_ok=True)
            seen = set()
            for v in unknown:
                if v.key() in seen:
                    continue
                seen.add(v.key())
                if len(replay_paths) >= 5:
                    break
                p = REPLAY / f"{self.pid}-{len(replay_paths) + 1}.json"
                p.write_text(json.dumps({
                    "property": self.pid, "clause": v.clause, "detail": v.detail,
                    "where": v.where, "source": v.source, "behaviour": v.behaviour,
                    "trace": v.trace}, indent=1, default=str))
                replay_paths.append(p)
                print(f"VIOLATION property={self.pid} replay={p}")
                print(f"  clause={v.clause} detail={v.detail} at {v.where}")
        cov = {
            "states": self.states,
            "transitions": self.transitions,
            "traces_validated_against_impl": self.traces_validated,
            "events_validated": self.events_validated,
            "evaluations": self.traces_validated + len(self.mc_runs),
            "distinct_nontrivial": len(self.distinct_cases),
            "rule": rule,
            "samples": self.samples or [{"note": "no trace stage in this run"}],
            "model_checking_runs": self.mc_runs,
            "trace_sources": self.trace_sources,
            "events_by_kind": self.event_kinds,
            "clauses_of_other_properties_seen": self.foreign,
            "known_findings_hit": {k: n for k, (_, n) in known_hits.items()},
            "violation_clauses": sorted({v.clause for v in unknown}),
            "exhaustive": self.exhaustive,
        }
        if extra_cov:
            cov.update(extra_cov)
        cov.update(self.notes)
        write_evidence(self.pid, {
            "property_id": self.pid, "tier": self.tier, "seed": self.seed, "level": self.level,
            "coverage": cov, "assumptions": self.assumptions, "wall_s": round(wall, 2),
            "violations": len(unknown),
        })
        print(f"{self.pid} {self.tier}: {self.traces_validated} traces / {self.events_validated} events validated, "
              f"{self.states} TLC states, {len(unknown)} violation(s), {len(known_hits)} known finding(s), {wall:.0f}s")
        return 1 if unknown else 0


def default_case_key(t):
    acts = tuple((e.get("a"), e.get("j"), e.get("p"), e.get("m"), e.get("q"), e.get("out")) for e in t.get("events", ()))
    return (json.dumps(t.get("inst"), sort_keys=True), tuple(t.get("filt", ())), acts)


def sample_of(t):
    evs = t.get("events", [])
    return {
        "inst": t.get("inst"), "filt": t.get("filt"),
        "events": [{k: v for k, v in e.items() if k not in ("post", "notes")} for e in evs[:12]],
        "last_post_core": next((e["post"].get("core") for e in reversed(evs) if "post" in e), None),
    }


def load_known():
    p = VERIF / "known_findings.json"
    if not p.exists():
        return []
    return [k for k in json.loads(p.read_text()).get("findings", []) if k.get("status") == "known"]


def match_known(known, pid, v: Violation):
    import fnmatch
    for k in known:
        if k["property"] != pid:
            continue
        if not fnmatch.fnmatchcase(v.clause, k["clause"]):
            continue
        if "detail" in k and not fnmatch.fnmatchcase(v.detail, k["detail"]):
            continue
        return k
    return None


def main_wrapper(fn):
    """Run a check function, mapping machinery failures to exit code 2."""
    try:
        common.assert_repo_import()
        return fn()
    except MachineryError as e:
        print("MACHINERY-FAILURE:", e)
        return 2
    except Exception:  # pylint: disable=broad-except
        traceback.print_exc()
        print("MACHINERY-FAILURE: unexpected exception")
        return 2
