"""Checks for the observer-level properties C11, C12, C13."""
from __future__ import annotations

import random

from . import dsession
from .framework import Check
from .scenarios import random_behaviour, tlc_behaviours

ALL3 = ["operations", "machines", "jobs"]
SUPPORTED = {
    "IsReadyObserver": ALL3, "EarliestStartTimeObserver": ALL3, "DurationObserver": ALL3,
    "IsScheduledObserver": ALL3, "PositionInJobObserver": ["operations"],
    "RemainingOperationsObserver": ["machines", "jobs"], "IsCompletedObserver": ALL3,
}
OTHERS = ["UnscheduledOperationsObserver", "MakespanReward", "IdleTimeReward", "HistoryObserver"]


def _n(chk, quick, thorough):
    return min(thorough, 5 * quick) if chk.tier == "thorough" else quick   # thorough is capped at 5x quick: every tier must finish well inside its timeout on a shared machine


def random_creations(rng, *, types=None, composite=True, full=False):
    types = list(types or SUPPORTED)
    if not full:
        types = rng.sample(types, rng.randint(1, len(types)))
    out = []
    for t in types:
        sup = SUPPORTED[t]
        if full or rng.random() < 0.5:
            fts = None
        else:
            fts = rng.sample(sup, rng.randint(1, len(sup)))
            if t == "IsCompletedObserver" and fts == ["operations"]:
                fts = ["operations", "jobs"]
        out.append((t, fts))
    for t in OTHERS:
        if rng.random() < (0.8 if full else 0.4):
            out.append((t, None))
    rng.shuffle(out)
    if composite and rng.random() < 0.7:
        out.append(("CompositeFeatureObserver", None))
        if rng.random() < 0.4:      # a composite of everything so far, the inner composite included
            out.append(("CompositeFeatureObserver", None))
    return out


def feature_trace(tid, beh, creations, *, fresh_run=True, attach_after=0):
    """attach_after > 0: the observers are constructed after that many dispatches (C12: a reset must still make
    them indistinguishable from observers constructed on a fresh dispatcher)."""
    s = dsession.DSession(tid, beh["inst"], beh["filt"], ())
    made = []
    pre = [a for a in beh["hist"] if a["a"] == "D"][:attach_after] if attach_after else []
    for a in pre:
        s.dispatch(a["j"], a["p"], a["m"])
    for (t, fts) in creations:
        if s.create_builtin(t, fts) == "ok":
            made.append((t, fts))
    if not pre:
        s.header["featcheck"] = True
        s.header["fresh_obs"] = s.post()["obs"]
    else:
        s.reset()
        s.fresh_run(made, [])          # right after the reset: as if constructed on a fresh dispatcher
    since = []
    for a in beh["hist"]:
        k = a["a"]
        if k == "D":
            if s.dispatch(a["j"], a["p"], a["m"], none=bool(a.get("none", False))) == "ok":
                since.append(a)
        elif k == "R":
            s.dispatch(a["j"], a["p"], a["m"])
        elif k == "Reset":
            s.reset()
            since = []
    if fresh_run:
        s.fresh_run(made, since)
    return s.trace()


def _traces(chk, behs, rng, source, start=1, **kw):
    traces, bmap = [], {}
    for i, b in enumerate(behs):
        cr = random_creations(rng, **kw)
        traces.append(feature_trace(start + i, b, cr))
        bmap[start + i] = {"behaviour": b, "creations": cr}
    chk.monitor(traces, source=source, behaviours=bmap)
    return len(traces)


FEAT_CONSTS = {"InstFamily": "<- Fam", "FiltFamily": "<- Filt", "OrderFamily": "<- OrdAll", "MaxResets": 0,
               "ResetMode": '"deps_first"'}


def _mc(chk, invariants, name, **over):
    c = {k: v for k, v in FEAT_CONSTS.items()}
    c.update(over)
    mod = "MC_Feat_T.tla" if chk.tier == "thorough" else "MC_Feat_Q.tla"
    # (MutStart etc. are constants of Dispatcher.tla only)
    from . import framework
    saved = dict(framework.CONST_DEFAULTS)
    framework.CONST_DEFAULTS.clear()
    try:
        return chk.mc(mod, "FSpec", c, invariants, name=name, timeout=3000)
    finally:
        framework.CONST_DEFAULTS.update(saved)


def three_episodes(b, rng):
    """One dispatcher, three episodes: two abandoned prefixes of the behaviour's dispatch sequence, each followed by
    a reset, then the whole sequence (what a training loop does; defects that need two resets live here)."""
    acts = [a for a in b["hist"] if a["a"] == "D"]

    def reinterleaved():
        """the same operations on the same machines, jobs interleaved differently (job order kept)"""
        queues = {}
        for a in acts:
            queues.setdefault(a["j"], []).append(a)
        out = []
        while queues:
            j = rng.choice(sorted(queues))
            out.append(queues[j].pop(0))
            if not queues[j]:
                del queues[j]
        return out

    hist = []
    for _ in range(2):
        other = reinterleaved()
        hist += other[: rng.randint(1, max(1, len(other)))] + [{"a": "Reset"}]
    return dict(b, hist=hist + acts)


def c11():
    chk = Check("C11", "model_checking")
    _mc(chk, ["Inv_C11_IsReady", "Inv_C11_IsScheduled", "Inv_C11_Position", "Inv_C11_Remaining",
              "Inv_C11_IsCompleted", "Inv_C11_Duration_ExceptOngoing", "Inv_C11_Est_Under"], "C11-features")
    # the implementation-shaped model reproduces the two recorded findings (each as its own invariant,
    # so that any OTHER deviation still fails the run above)
    _mc(chk, ["Inv_C11_Est_Over"], "C11-est-over")
    _mc(chk, ["Inv_C11_Duration_Ongoing"], "C11-duration-ongoing")
    rng = random.Random(chk.seed + 11)
    behs, _ = tlc_behaviours("c11", fam="FamA", filt="FiltA", mode="complete", resets=1,
                             simulate=f"num={_n(chk, 300, 2500)}", workers=4)
    n = _traces(chk, behs[: len(behs) // 2], rng, "tlc-simulated+all-feature-observers", full=True)
    n += _traces(chk, behs[len(behs) // 2:], rng, "tlc-simulated+random-observer-subsets", start=n + 1)
    rb = [random_behaviour(rng, resets=0.02, max_jobs=4, max_ops=4, max_m=3) for _ in range(_n(chk, 100, 1000))]
    n += _traces(chk, rb, rng, "random-large+random-observer-subsets", start=n + 1)
    # the composite built from configurations (what the environments do), on dispatchers that already have observers
    traces = []
    for i, b in enumerate(rb[: _n(chk, 40, 200)] + behs[: _n(chk, 20, 100)]):
        s = dsession.DSession(n + 1 + i, b["inst"], b["filt"], ())
        for (t, f) in random_creations(rng, composite=False)[: rng.randint(0, 2)]:
            s.create_builtin(t, f)
        feats = [(t, f) for (t, f) in random_creations(rng, composite=False) if t in SUPPORTED]
        if i % 2 == 0 and not any(t == "IsCompletedObserver" for (t, _f) in feats):
            feats.append(("IsCompletedObserver", None))
        s.create_composite_from_configs(feats)
        s.header["featcheck"] = True
        for a in b["hist"]:
            if a["a"] == "D":
                s.dispatch(a["j"], a["p"], a["m"])
            elif a["a"] == "Reset":
                s.reset()
        traces.append(s.trace())
    chk.monitor(traces, source="composite-from-configurations")
    n += len(traces)
    eps = [three_episodes(b, rng) for b in (behs[: _n(chk, 60, 300)] + rb[: _n(chk, 40, 200)])]
    n += _traces(chk, eps[::2], rng, "three-episodes+all-feature-observers", start=n + 1, full=True)
    _traces(chk, eps[1::2], rng, "three-episodes+random-observer-subsets", start=n + 1)
    return chk.finish(
        "TLC: implementation-shaped observer records vs the definitional FeatTrue for every entity with work "
        "left, in every reachable state of the family x filters (one invariant per observer class and "
        "deviation direction); traces: every built-in feature observer (all and random feature-type subsets, "
        "random creation orders, composite) constructed on TLC-family and random instances, features after "
        "every dispatch compared with FeatTrue by the monitor")


def c12():
    chk = Check("C12", "model_checking")
    _mc(chk, ["Inv_C12_ResetFresh"], "C12-reset-fresh-deps", OrderFamily="<- OrdDeps", MaxResets=1,
        InstFamily="<- FamTiny", FiltFamily="<- FiltNone")
    _mc(chk, ["Inv_C12_ResetFresh"], "C12-reset-fresh-all", OrderFamily="<- OrdAllR", MaxResets=1,
        InstFamily="<- FamNF")
    rng = random.Random(chk.seed + 12)
    behs, _ = tlc_behaviours("c12", fam="FamA", filt="FiltB", mode="prefixes", resets=2,
                             simulate=f"num={_n(chk, 200, 2000)}", workers=4, depth=60)
    behs = [b for b in behs if any(a["a"] == "Reset" for a in b["hist"])]
    n = _traces(chk, behs, rng, "tlc-simulated-resets+random-creation-orders")
    rb = [random_behaviour(rng, resets=0.12, max_jobs=4, max_ops=4, max_m=3) for _ in range(_n(chk, 120, 1200))]
    n += _traces(chk, rb, rng, "random-large-resets", start=n + 1)
    n += _traces(chk, [three_episodes(b, rng) for b in rb[: _n(chk, 60, 300)]], rng, "three-episodes", start=n + 1)
    # observers attached in the middle of a history, then a reset
    late = []
    for i, b in enumerate((behs + rb)[: _n(chk, 150, 1200)]):
        nd = sum(1 for a in b["hist"] if a["a"] == "D")
        cr = random_creations(rng, composite=False)
        late.append(feature_trace(n + 1 + i, b, cr, attach_after=rng.randint(1, max(1, nd))))
    chk.monitor(late, source="observers-attached-mid-history-then-reset")
    n += len(late)
    # the graph updater among the observers, and whole environments over several episodes
    from .gchecks import residual_trace, BUILDERS
    from .echecks import env_trace, random_env_cfg
    traces = [residual_trace(n + 1 + i, b, rng, BUILDERS[i % 4], True, i % 3 != 0)
              for i, b in enumerate((behs + rb)[: _n(chk, 120, 1000)])]
    chk.monitor(traces, source="residual-graph-updater-resets")
    n += len(traces)
    traces = [env_trace(n + 1 + i, b, random_env_cfg(rng, True), rng, episodes=rng.choice([2, 3]), fault_prob=0.05)
              for i, b in enumerate((behs + rb)[: _n(chk, 60, 500)])]
    chk.monitor(traces, source="environment-episodes")
    return chk.finish(
        "TLC: after Reset (dispatcher, then every subscriber in order) the observer records equal the freshly "
        "constructed ones, for every creation order of up to three of the observers whose reset reads another "
        "observer and for the full set, at every point of every history of the family; traces: reset at "
        "TLC-chosen points with random creation orders; state after reset compared with the state logged "
        "right after construction, and the calls since the last reset repeated on fresh objects")


def c13():
    chk = Check("C13", "model_checking")
    _mc(chk, ["Inv_C13_Rewards"], "C13-rewards", OrderFamily="<- OrdRewards", MaxResets=1)
    rng = random.Random(chk.seed + 13)
    behs, _ = tlc_behaviours("c13", fam="FamA", filt="FiltA", mode="prefixes", resets=1, faults=1,
                             simulate=f"num={_n(chk, 250, 2500)}", workers=4, depth=60)
    cr = [("MakespanReward", None), ("IdleTimeReward", None)]
    traces = []
    for i, b in enumerate(behs):
        c2 = list(cr)
        rng.shuffle(c2)
        traces.append(feature_trace(i + 1, b, c2))
    chk.monitor(traces, source="tlc-simulated+reward-observers")
    n = len(traces)
    rb = [random_behaviour(rng, resets=0.03, faults=0.05, max_jobs=5, max_ops=5, max_m=4)
          for _ in range(_n(chk, 150, 1500))]
    traces = [feature_trace(n + i + 1, b, cr) for i, b in enumerate(rb)]
    chk.monitor(traces, source="random-large+reward-observers")
    # reward observers attached in the middle of a history: each reward still is the step's makespan growth / idle time
    traces = []
    for i, b in enumerate(behs[: _n(chk, 80, 500)] + rb[: _n(chk, 60, 400)]):
        s = dsession.DSession(3 * n + i + 1, b["inst"], b["filt"], ())
        acts = [a for a in b["hist"] if a["a"] in ("D", "Reset")]
        cut = rng.randint(1, max(1, len(acts)))
        for k, a in enumerate(acts):
            if k == cut:
                for (t, _f) in rng.sample(cr, rng.randint(1, 2)):
                    if i % 3 == 0:      # constructed detached, then subscribed by hand: still one reward per dispatch
                        if s.create_builtin(t, subscribe=False) == "ok":
                            s.subscribe_builtin(len(s.extra) - 1)
                    else:
                        s.create_builtin(t)
            if a["a"] == "D":
                s.dispatch(a["j"], a["p"], a["m"])
            else:
                s.reset()
        traces.append(s.trace())
    chk.monitor(traces, source="reward-observers-attached-mid-history")
    # rewards returned by the environments (single: 2 episodes; multi: the configured reward function in every episode)
    from .echecks import env_trace, random_env_cfg, multi_traces
    base = n + len(rb) + 1
    traces = [env_trace(base + i, b, random_env_cfg(rng, True), rng, episodes=2, fault_prob=0.05)
              for i, b in enumerate(rb[: _n(chk, 40, 300)])]
    chk.monitor(traces, source="environment-step-rewards")
    base += len(traces)
    mt = []
    for rep in range(_n(chk, 4, 16)):
        cfg = random_env_cfg(rng, True)
        cfg["reward"] = ["IdleTimeReward", "MakespanReward"][rep % 2]
        ts = multi_traces(base, rng, dict(num_jobs=(2, 3), num_machines=(2, 3), duration_range=(1, 5), seed=rep + chk.seed),
                          cfg, resets=6, steps_rng=rng)
        base += len(ts) + 1
        mt.extend(ts)
    chk.monitor(mt, source="multi-environment-rewards")
    return chk.finish(
        "TLC: one non-positive reward per dispatch, running sum = -makespan (makespan reward) / -total idle "
        "time up to each machine's last operation (idle-time reward), in every reachable state incl. after "
        "resets; traces: reward lists after every call judged by the same predicate")


CHECKS = {"C11": c11, "C12": c12, "C13": c13}
