------------------------------ MODULE EnvModel ------------------------------
(* C18 on the specification: every legal decision of every reachable state   *)
(* lies in the declared action space; NvecMachines is the second entry of     *)
(* the declared nvec as a function of the number of machines ("M+1" is what   *)
(* start = -1 requires; "M" is the design mutant that loses the last id).     *)
EXTENDS FeatureModel, Env
CONSTANT NvecMachines
Nvec == <<Len(inst), IF NvecMachines = "M+1" THEN NM(inst) + 1 ELSE NM(inst)>>
Inv_C18_LegalInSpace ==
    started => \A a \in LegalActions(inst, s) : InMultiDiscrete(a, Nvec, <<0, -1>>)
Inv_C18_DoneIffNoLegal == started => (Complete(inst, s.sched) <=> LegalActions(inst, s) = {})
=============================================================================
