----------------------------- MODULE MC_Rules_T -----------------------------
EXTENDS RuleSolver
Fam == Family({<<2, 1>>, <<1, 1, 1>>}, MSeqs(2), {0, 1, 2})
       \cup Family({<<2, 2>>, <<3, 1>>}, MSeqs(2), {1, 2})
       \cup Family({<<2, 1>>}, MSeqs(3), {0, 1, 3})
Filt == FiltNone \cup FiltSingles \cup FiltDefault \cup {<<"idle", "dom">>}
NoKinds == <<>>
=============================================================================
