from . import dchecks

CHECKS = {}
REPLAYERS = {}
CHECKS.update(dchecks.CHECKS)
