"""./check selftest - guards against vacuity and against errors of the machinery
itself (DESIGN.md section 5.4):

 * design mutants: a constant switches ONE clause of the specification to a
   known-wrong variant; TLC must report the invariant that clause protects.
   An invariant no mutant can break would be suspect.
 * binding self-test: corrupt one logged field / drop one notification / swap
   two events of a good recorded trace; the monitor must reject it with the
   right clause.
"""
from __future__ import annotations

import copy
import random

from . import dsession, framework, scenarios, tlcio
from .common import SPEC, run_tlc
from .framework import cfg_text, CONST_DEFAULTS

DISP = {"InstFamily": "<- FamTiny", "FiltFamily": "<- Filt", "NObs": 2, "ObsKinds": "<- Kinds2"}


def _tlc(module, spec, consts, invariants, constraints=(), name="selftest"):
    cfg = SPEC / f".gen_{name}.cfg"
    cfg.write_text(cfg_text(spec, consts, invariants, constraints))
    try:
        return run_tlc(module, cfg.name, name, workers=8, timeout=600, heap="6g")
    finally:
        cfg.unlink(missing_ok=True)


DESIGN_MUTANTS = [
    # (label, module, spec, constant overrides, invariants checked, invariant expected to fail, constraints)
    ("start = min(machine, job)", "MC_Hist_Q.tla", "SpecCore", {"MutStart": '"min"'}, ["Inv_Feasible", "Inv_Tracking"], "Inv_Feasible", []),
    ("start ignores the job", "MC_Hist_Q.tla", "SpecCore", {"MutStart": '"machine_only"'}, ["Inv_Feasible", "Inv_SemiActive"], None, []),
    ("readiness not checked", "MC_Hist_Q.tla", "SpecFaults", {"MutValidate": '"skip_ready"'}, ["Inv_Feasible"], "Inv_Feasible", ["Depth8"]),
    ("eligibility not checked", "MC_Hist_Q.tla", "SpecFaults", {"MutValidate": '"skip_eligible"'}, ["Inv_Feasible"], "Inv_Feasible", ["Depth8"]),
    ("tracking updated before the request is validated", "MC_Hist_Q.tla", "SpecFaults", {"MutValidate": '"after_tracking"'}, ["Inv_RejectChangesNothing"], "Inv_RejectChangesNothing", ["Depth8"]),
    ("cache not cleared on dispatch", "MC_Hist_Q.tla", "SpecQueries", {"MutCache": '"no_clear_on_dispatch"'}, ["Inv_CacheCoherent"], "Inv_CacheCoherent", ["Depth8"]),
    ("cache not cleared on reset", "MC_Hist_Q.tla", "SpecQueries", {"MutCache": '"no_clear_on_reset"'}, ["Inv_CacheCoherent"], "Inv_CacheCoherent", ["Depth8"]),
    ("uncompleted_operations aliases the cached unscheduled list", "MC_Hist_Q.tla", "SpecQueries", {"MutCache": '"alias_uncompleted"'}, ["Inv_CacheCoherent"], "Inv_CacheCoherent", ["Depth8"]),
    ("cache cleared only after the observers were notified", "MC_Hist_Q.tla", "SpecObsQueries", {"MutCache": '"clear_after_notify"'}, ["Inv_SeesPostState", "Inv_CacheCoherent"], None, ["Depth8"]),
    ("every subscriber notified twice", "MC_Hist_Q.tla", "SpecObservers", {"MutNotify": '"twice"'}, ["Inv_Notifications"], "Inv_Notifications", ["Depth8"]),
    ("subscribers notified in reverse order", "MC_Hist_Q.tla", "SpecObservers", {"MutNotify": '"reverse"', "NObs": 3, "ObsKinds": "<- Kinds3"}, ["Inv_NotifyInOrder"], "Inv_NotifyInOrder", ["Depth8"]),
    ("observers notified of rejected requests", "MC_Hist_Q.tla", "SpecObservers", {"MutNotify": '"on_reject"'}, ["Inv_Notifications", "Inv_RejectChangesNothing"], None, ["Depth8"]),
]

OTHER_MUTANTS = [
    ("reset reads dependencies that were not reset yet", "MC_Feat_Q.tla", "FSpec",
     {"InstFamily": "<- FamTiny", "FiltFamily": "<- FiltNone", "OrderFamily": "<- OrdDeps", "MaxResets": 1, "ResetMode": '"naive"'},
     ["Inv_C12_ResetFresh"], "Inv_C12_ResetFresh"),
    ("action space MultiDiscrete([J, M], start=[0,-1])", "MC_Env_Q.tla", "FSpec",
     {"InstFamily": "<- Fam", "FiltFamily": "<- Filt", "OrderFamily": "<- Ord", "MaxResets": 0, "ResetMode": '"deps_first"', "NvecMachines": '"M"'},
     ["Inv_C18_LegalInSpace"], "Inv_C18_LegalInSpace"),
    ("generators share one global random stream", "MC_Generator.tla", "GenSpec",
     {"Gens": "{1, 2}", "Seeds": "{11}", "MaxCalls": 3, "RngDesign": '"global"'},
     ["Inv_C19_SameSeedSameSequence"], "Inv_C19_SameSeedSameSequence"),
    ("iteration counter rewound when a pass ends instead of when one starts", "MC_GeneratorIter.tla", "IterSpec",
     {"Limit": 2, "MaxLen": 6, "IterDesign": '"rewind-on-stop"'},
     ["Inv_C19_PassYieldsExactlyLimit"], "Inv_C19_PassYieldsExactlyLimit"),
    ("frames loaded by plain string sort", "Viz.tla", "VizSpec", {"SortScheme": '"lex"'},
     ["Inv_C20_FrameOrder"], "Inv_C20_FrameOrder"),
]


def design_mutants():
    ok = True
    for (label, module, spec, over, invs, expect, cons) in DESIGN_MUTANTS:
        c = dict(CONST_DEFAULTS)
        c.update(DISP)
        c.update(over)
        r = _tlc(module, spec, c, invs, cons)
        hit = r.violated
        good = bool(hit) and (expect is None or expect in hit)
        print(f"  design mutant [{label}]: TLC reports {hit or 'nothing'} -> {'ok' if good else 'NOT DETECTED'}")
        ok &= good
    for (label, module, spec, consts, invs, expect) in OTHER_MUTANTS:
        r = _tlc(module, spec, consts, invs)
        good = expect in r.violated
        print(f"  design mutant [{label}]: TLC reports {r.violated or 'nothing'} -> {'ok' if good else 'NOT DETECTED'}")
        ok &= good
    return ok


def _good_traces():
    rng = random.Random(5)
    out = []
    for i in range(6):
        b = scenarios.random_behaviour(rng, faults=0.1, resets=0.0, kinds=("rec", "hist"), max_jobs=3, max_ops=3, max_m=2)
        b["hist"] = [{"a": "Create", "o": 1}, {"a": "Create", "o": 2}] + [a for a in b["hist"] if a["a"] != "Create"]
        out.append(scenarios.Probed(i + 1, b, rng=rng, query_probe=lambda r: ["current_time", "unscheduled_operations"]).run())
    return out


def _first(tr, pred):
    for i, e in enumerate(tr["events"]):
        if pred(e):
            return i
    return None


def binding_selftest():
    base = _good_traces()
    v, _ = tlcio.monitor("Trace_D.tla", "Trace_D.cfg", "selftest-good", base, workers=4)
    ok = all(not errs for errs in v.values())
    print(f"  unmodified traces accepted: {'ok' if ok else 'REJECTED ' + str(v)}")
    corruptions = []

    def c_start(t):
        i = _first(t, lambda e: e["a"] == "Dispatch" and e["out"] == "ok" and "post" in e)
        e = t["events"][i]
        e["post"]["core"]["sched"][e["m"] - 1][-1][2] += 1
        return "C02:start"

    def c_drop_note(t):
        i = _first(t, lambda e: e["a"] == "Dispatch" and e["out"] == "ok" and e["notes"])
        t["events"][i]["notes"] = []
        return "C10:notify-missing"

    def c_query(t):
        i = _first(t, lambda e: e["a"] == "Query" and e["q"] == "current_time")
        t["events"][i]["res"] += 1
        return "C05:query"

    def c_history(t):
        i = _first(t, lambda e: e["a"] == "Dispatch" and e["out"] == "ok" and "post" in e)
        t["events"][i]["post"]["hists"][1]["h"] = []
        return "C10:history"

    def c_outcome(t):
        i = _first(t, lambda e: e["a"] == "Dispatch" and e["out"] != "ok")
        if i is None:
            return None
        t["events"][i]["out"] = "ok"
        return "C09:accepted-invalid"

    def c_swap(t):
        idx = [i for i, e in enumerate(t["events"]) if e["a"] == "Dispatch" and e["out"] == "ok" and "post" in e]
        if len(idx) < 2:
            return None
        a, b = idx[0], idx[1]
        t["events"][a], t["events"][b] = t["events"][b], t["events"][a]
        return "C"     # any clause: the swapped steps cannot both be steps of the specification

    for fn in (c_start, c_drop_note, c_query, c_history, c_outcome, c_swap):
        for t0 in base:
            t = copy.deepcopy(t0)
            want = fn(t)
            if want is None:
                continue
            corruptions.append((fn.__name__, want, t))
            break
    traces = []
    for k, (_, _, t) in enumerate(corruptions):
        t["tid"] = k + 1
        traces.append(t)
    v, _ = tlcio.monitor("Trace_D.tla", "Trace_D.cfg", "selftest-bad", traces, workers=4)
    for k, (name, want, _) in enumerate(corruptions):
        got = sorted({e[1] for e in v[k + 1]})
        good = any(g.startswith(want) for g in got)
        print(f"  corruption {name}: monitor reports {got} -> {'ok' if good else 'NOT REJECTED'}")
        ok &= good
    return ok


def run():
    print("design mutants (each must make TLC report a violation):")
    a = design_mutants()
    print("binding self-test (each corruption of a good trace must be rejected):")
    b = binding_selftest()
    print("selftest:", "PASS" if (a and b) else "FAIL")
    return 0 if (a and b) else 1
