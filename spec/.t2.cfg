SPECIFICATION FSpec
CONSTANTS
  InstFamily <- Fam
  FiltFamily <- Filt
  OrderFamily <- OrdRewards
  MaxResets = 1
  ResetMode = "deps_first"







CHECK_DEADLOCK FALSE
INVARIANT Inv_UnschedObserver
