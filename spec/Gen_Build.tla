----------------------------- MODULE Gen_Build -----------------------------
(***************************************************************************)
(* Behaviour generator for LARGER instances: the instance itself is built  *)
(* by actions (AddOp / NewJob / Start) before the dispatcher runs, so that *)
(* TLC's simulation mode samples instance families far too large to        *)
(* enumerate as initial states (e.g. 4 jobs x 3 operations, 3 machines,    *)
(* every non-empty machine set, durations 0..4: about 10^17 instances).    *)
(* After Start the behaviour is a behaviour of Gen_Dispatcher.             *)
(***************************************************************************)
EXTENDS Gen_Dispatcher

CONSTANTS MaxJobs, MaxOpsPerJob, BuildMachines, BuildDurs
VARIABLE phase
bvars == <<gvars, phase>>

LastJob == inst[Len(inst)]
BInit ==
    /\ inst = << <<>> >> /\ filt = <<>>
    /\ sched = <<>> /\ nxt = <<>> /\ jfree = <<>> /\ mfree = <<>>
    /\ cache = Empty /\ subs = <<>>
    /\ olog = [o \in Obs |-> <<>>] /\ ghost = [o \in Obs |-> <<>>]
    /\ pend = <<>> /\ last = [kind |-> "none"]
    /\ hist = <<>> /\ done = FALSE /\ phase = "build"
AddOp == \E ms \in MSeqs(BuildMachines) : \E d \in BuildDurs :
    /\ phase = "build" /\ Len(LastJob) < MaxOpsPerJob
    /\ inst' = [inst EXCEPT ![Len(inst)] = Append(@, [ms |-> ms, d |-> d])]
    /\ UNCHANGED <<filt, sched, nxt, jfree, mfree, cache, subs, olog, ghost, pend, last, hist, done, phase>>
NewJob ==
    /\ phase = "build" /\ LastJob # <<>> /\ Len(inst) < MaxJobs
    /\ inst' = Append(inst, <<>>)
    /\ UNCHANGED <<filt, sched, nxt, jfree, mfree, cache, subs, olog, ghost, pend, last, hist, done, phase>>
StartRun == \E f \in FiltFamily :
    /\ phase = "build" /\ LastJob # <<>>
    /\ (Len(inst) = MaxJobs \/ Len(inst) >= 2)
    /\ phase' = "run" /\ filt' = f
    /\ sched' = InitState(inst).sched /\ nxt' = InitState(inst).nxt
    /\ jfree' = InitState(inst).jfree /\ mfree' = InitState(inst).mfree
    /\ last' = [kind |-> "ok"]
    /\ UNCHANGED <<inst, cache, subs, olog, ghost, pend, hist, done>>
BNext == \/ AddOp \/ NewJob \/ StartRun
         \/ (phase = "run" /\ GNext /\ UNCHANGED phase)
BSpec == BInit /\ [][BNext]_bvars
=============================================================================
