SPECIFICATION SpecCore
CONSTANTS
  InstFamily <- Fam
  FiltFamily <- Filt
  NObs = 0
  ObsKinds <- NoKinds
  MutStart = "ok"
  MutCache = "ok"
  MutValidate = "ok"
  MutNotify = "ok"
INVARIANT TypeOK
INVARIANT Inv_Feasible
INVARIANT Inv_CompleteAfterN
INVARIANT Inv_Tracking
INVARIANT Inv_SemiActive
INVARIANT Inv_Makespan
INVARIANT Inv_Partitions
INVARIANT Inv_EndNow
INVARIANT Inv_FilterKeepsNow
INVARIANT Inv_NoDeadlock
INVARIANT Inv_TimeMonotone
INVARIANT Inv_CompletedGrows
CHECK_DEADLOCK FALSE
