#!/bin/bash
# Thin launcher for TLC with bounded memory (the stock wrapper sizes the
# fingerprint set at 25% of RAM, which costs ~50 s of page zeroing here).
# usage: tlcrun.sh <metadir> <heap> <fpmem> <tlc args...>
meta=$1; heap=$2; fpmem=$3; shift 3
JAR=/opt/veriftools/tla/tla2tools.jar:/opt/veriftools/tla/CommunityModules-deps.jar
exec java -XX:+UseParallelGC -Xmx"$heap" ${TLC_JAVA_OPTS:-} -cp "$JAR" tlc2.TLC \
     -fpmem "$fpmem" -metadir "$meta" -noGenerateSpecTE "$@"
