----------------------------- MODULE MC_Hist_Q -----------------------------
(* quick tier, history-dependent models (rejects, resets, queries,          *)
(* observers): smaller instance family, bounded behaviour length            *)
EXTENDS MC_Dispatcher
Fam == Family({<<2, 1>>, <<1, 1>>}, MSeqs(2), {0, 1})
Filt == FiltNone \cup FiltDefault
FamTiny == Family({<<2, 1>>}, SingleMSeqs(2), {0, 1}) \cup Family({<<1, 1>>}, MSeqs(2), {1})
Depth8 == TLCGet("level") <= 8
Depth9 == TLCGet("level") <= 9
Depth10 == TLCGet("level") <= 10
=============================================================================
