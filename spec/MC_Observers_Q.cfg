SPECIFICATION SpecObservers
CONSTANTS
  InstFamily <- FamTiny
  FiltFamily <- Filt
  NObs = 3
  ObsKinds <- Kinds3
  MutStart = "ok"
  MutCache = "ok"
  MutValidate = "ok"
  MutNotify = "ok"
CONSTRAINT Depth8
CHECK_DEADLOCK FALSE
INVARIANT TypeOK
INVARIANT Inv_RejectChangesNothing
INVARIANT Inv_Notifications
INVARIANT Inv_NotifyInOrder
INVARIANT Inv_SeesPostState
INVARIANT Inv_Singleton
INVARIANT Inv_History
INVARIANT Inv_CacheCoherent
