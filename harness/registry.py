from . import dchecks, rchecks, ochecks, gchecks, echecks

CHECKS = {}
REPLAYERS = {}
CHECKS.update(dchecks.CHECKS)
CHECKS.update(rchecks.CHECKS)
CHECKS.update(ochecks.CHECKS)
CHECKS.update(gchecks.CHECKS)
CHECKS.update(echecks.CHECKS)
REPLAYERS["E"] = echecks.replay_env
