"""Replaying specification behaviours against the real Dispatcher and
recording what the real objects do (trace kind "D").

One `DSession` = one trace.  `run_behaviour` maps the action records emitted
by the TLA+ behaviour generators (Gen_*.tla) to public calls.  The session
contains no expectations: every event carries its arguments, the outcome
(ok / exception class) and the projected post-state.
"""
from __future__ import annotations

from job_shop_lib.dispatching import (
    Dispatcher,
    DispatcherObserver,
    HistoryObserver,
)

from . import model
from . import obsproj


class _Notes:
    """Mixin: record what the observer sees from inside update()/reset()."""

    _session = None
    _oid = 0

    def _note(self, ev, sop=None):
        d = self.dispatcher
        n = {
            "o": self._oid,
            "ev": ev,
            "op": model.sop_ref(sop) if sop is not None else [],
            "is_sched": bool(d.is_scheduled(sop.operation)) if sop is not None else False,
            "nsch": int(d.schedule.num_scheduled_operations),
            # a memoised query, as an observer would use it
            "sched_ops": [model.op_ref(o) for o in d.scheduled_operations()],
        }
        self._session.notes.append(n)


class Rec(_Notes, DispatcherObserver):
    """Non-singleton recording observer."""

    _is_singleton = False

    def __init__(self, dispatcher, *, session, oid, subscribe=True):
        self._session = session
        self._oid = oid
        super().__init__(dispatcher, subscribe=subscribe)

    def update(self, scheduled_operation):
        self._note("update", scheduled_operation)

    def reset(self):
        self._note("reset")


class HistSub(_Notes, HistoryObserver):
    """A subclass of the built-in (singleton) HistoryObserver."""

    def __init__(self, dispatcher, *, session, oid, subscribe=True):
        self._session = session
        self._oid = oid
        super().__init__(dispatcher, subscribe=subscribe)

    def update(self, scheduled_operation):
        super().update(scheduled_operation)
        self._note("update", scheduled_operation)

    def reset(self):
        super().reset()
        self._note("reset")


def _obs_mwkr():
    from job_shop_lib.dispatching.rules import observer_based_most_work_remaining_rule
    return observer_based_most_work_remaining_rule


class _Lazy(dict):
    def __missing__(self, k):
        from job_shop_lib.dispatching import rules as R
        table = {"spt": "shortest_processing_time", "fcfs": "first_come_first_served",
                 "mwkr": "most_work_remaining", "mor": "most_operations_remaining",
                 "random": "random", "obs_mwkr": R.observer_based_most_work_remaining_rule}
        self.update(table)
        return self[k]


RULES = _Lazy()


def _scores():
    from job_shop_lib.dispatching import rules as R
    return {"spt_score": lambda: R.shortest_processing_time_score,
            "fcfs_score": lambda: R.first_come_first_served_score,
            "mwkr_score": R.MostWorkRemainingScorer,
            "mor_score": lambda: R.most_operations_remaining_score}


class _LazyScores(dict):
    def __missing__(self, k):
        self.update(_scores())
        return self[k]


SCORES = _LazyScores()


def build_graph(builder, instance):
    from job_shop_lib import graphs as G
    return {"disjunctive": G.build_disjunctive_graph, "agent_task": G.build_agent_task_graph,
            "agent_task_with_jobs": G.build_agent_task_graph_with_jobs,
            "complete_agent_task": G.build_complete_agent_task_graph}[builder](instance)


def _outcome(fn):
    try:
        return "ok", fn()
    except Exception as e:  # pylint: disable=broad-except
        return "exc:" + type(e).__name__, None


class DSession:
    def __init__(self, tid, inst, filt, kinds=(), extra_header=None):
        self.tid = tid
        self.inst = inst
        self.filt = list(filt)
        self.kinds = list(kinds)
        self.instance = model.build_instance(inst)
        self.fp0 = model.instance_fingerprint(self.instance)
        self.dispatcher = model.make_dispatcher(self.instance, self.filt)
        self.pool = {}          # pool id (1-based) -> observer object
        self.extra = []         # built-in observers created by scenarios
        self.notes = []
        self.events = []
        self._last_post = None
        self.header = dict(extra_header or {})
        self._ev({"a": "Init"})

    # -- projection ------------------------------------------------------
    def _oid_of(self, obj):
        for k, v in self.pool.items():
            if v is obj:
                return k
        return 0

    def post(self):
        d = self.dispatcher
        p = {
            "core": model.project_core(d),
            "der": model.project_derived(d),
            "cache": model.project_cache(d),
            "cache_other": model.project_cache_other(d),
            "subs": [self._oid_of(o) for o in d.subscribers],
            "hists": [
                (
                    {"na": False, "h": [model.sop_ref(s) for s in self.pool[i + 1].history[: self._cap()]]}
                    if (i + 1) in self.pool and isinstance(self.pool[i + 1], HistoryObserver)
                    else {"na": True, "h": []}
                )
                for i in range(len(self.kinds))
            ],
            "obs": [obsproj.project_observer(o, d.subscribers) for o in d.subscribers],
            "instok": model.instance_fingerprint(self.instance) == self.fp0,
        }
        return p

    def _cap(self):
        """A record longer than this is certainly wrong already; keep the log bounded."""
        return 3 * self.instance.num_operations + 10

    def _ev(self, rec):
        rec["notes"] = self.notes
        self.notes = []
        post = self.post()
        if post != self._last_post:      # lossless: an omitted post-state = identical to the previous one
            rec["post"] = post
            self._last_post = post
        self.events.append(rec)

    # -- actions ---------------------------------------------------------
    def _op(self, j, p):
        return self.instance.jobs[j - 1][p - 1]

    def dispatch(self, j, p, m, none=False, foreign=False):
        """m is the 1-based machine id; m = -1 stands for machine_id=None on
        a flexible operation; `none` passes None for a single-machine one.
        foreign: the request is made with a look-alike Operation that was never attached to the instance (same machines
        and duration as jobs[j][p]); it is "not the next operation of its job" and is logged with position 0."""
        op = self._op(j, p)
        p_like = p
        if foreign:
            from job_shop_lib import Operation
            op = Operation(list(op.machines) if len(op.machines) > 1 else op.machines[0], op.duration)
            p = 0
        if none or m == -1:
            out, _ = _outcome(lambda: self.dispatcher.dispatch(op))
        else:
            out, _ = _outcome(lambda: self.dispatcher.dispatch(op, m - 1))
        ev = {"a": "Dispatch", "j": j, "p": p, "m": m, "none": bool(none), "out": out}
        if foreign:
            ev["foreign_like"] = p_like      # (for re-execution: the position the look-alike was modelled on)
        self._ev(ev)
        return out

    def reset(self):
        out, _ = _outcome(self.dispatcher.reset)
        self._ev({"a": "Reset", "out": out})

    def query(self, q):
        out, val = _outcome(lambda: getattr(self.dispatcher, q)())
        res = model.project_query_value(q, val) if out == "ok" else []
        self._ev({"a": "Query", "q": q, "out": out, "res": res})

    def query_min_start(self, ops):
        """the public Dispatcher.min_start_time(list of operations)"""
        lst = [self._op(j, p) for j, p in ops]
        out, val = _outcome(lambda: model.num(self.dispatcher.min_start_time(lst)))
        self._ev({"a": "QueryArg", "q": "min_start_time", "j": 1, "p": 1, "m": 0, "L": [list(o) for o in ops],
                  "out": out, "res": val if out == "ok" else 0})

    def query_arg(self, q, j, p, m=0, after_reject=False):
        d = self.dispatcher
        op = self._op(j, p)
        # in every other state the arguments are passed by keyword (a memo keyed on positional arguments only
        # would hand back the answer of the previous keyword call)
        kw = sum(1 for e in self.events if e["a"] in ("Dispatch", "Reset")) % 2 == 1
        if q == "is_scheduled":
            out, val = _outcome(lambda: bool(d.is_scheduled(operation=op) if kw else d.is_scheduled(op)))
        elif q == "is_operation_ready":
            out, val = _outcome(lambda: bool(d.is_operation_ready(operation=op) if kw else d.is_operation_ready(op)))
        elif q == "earliest_start_time":
            out, val = _outcome(lambda: model.num(d.earliest_start_time(operation=op) if kw
                                                  else d.earliest_start_time(op)))
        elif q == "start_time":
            out, val = _outcome(lambda: model.num(d.start_time(operation=op, machine_id=m - 1) if kw
                                                  else d.start_time(op, m - 1)))
        elif q == "next_operation":
            out, val = _outcome(lambda: model.op_ref(d.next_operation(job_id=j - 1) if kw else d.next_operation(j - 1)))
        else:
            raise ValueError(q)
        ev = {"a": "QueryArg", "q": q, "j": j, "p": p, "m": m, "out": out, "res": val if out == "ok" else 0}
        if after_reject:
            ev["after_reject"] = True
        self._ev(ev)

    def apply_filter(self, names, ops):
        f = model.make_filter(names)
        lst = [self._op(j, p) for j, p in ops]
        out1, val1 = _outcome(lambda: f(self.dispatcher, lst))
        out, val = _outcome(lambda: f(self.dispatcher, lst))       # the same composite object, asked again
        if out1 != "ok":
            out, val = out1, val1
        self._ev({"a": "Filter", "names": list(names), "L": [list(o) for o in ops],
                  "out": out, "res": [model.op_ref(o) for o in val] if out == "ok" else [],
                  "res_first": [model.op_ref(o) for o in val1] if out1 == "ok" else []})

    def create(self, o, detached=False):
        kind = self.kinds[o - 1]
        d = self.dispatcher
        sub = not detached

        def mk():
            if kind == "rec":
                return Rec(d, session=self, oid=o, subscribe=sub)
            if kind == "hist":
                return HistoryObserver(d, subscribe=sub)
            if kind == "histsub":
                return HistSub(d, session=self, oid=o, subscribe=sub)
            raise ValueError(kind)

        out, obj = _outcome(mk)
        if out == "ok":
            self.pool[o] = obj
        ev = {"a": "Create", "o": o, "k": kind, "out": out}
        if detached:
            ev["detached"] = True
        self._ev(ev)

    def unsubscribe(self, o):
        obj = self.pool.get(o)
        if obj is None or not any(x is obj for x in self.dispatcher.subscribers):
            return  # the driver only asks for calls that make sense in the actual state

        out, _ = _outcome(lambda: self.dispatcher.unsubscribe(obj))
        self._ev({"a": "Unsub", "o": o, "out": out})

    def _extra_ids(self):
        """subscribers as identities: 1-based index into self.extra (built-in observers of this session), else 0"""
        out = []
        for o in self.dispatcher.subscribers:
            k = 0
            for i, x in enumerate(self.extra):
                if x is o:
                    k = i + 1
            out.append(k)
        return out

    def unsubscribe_builtin(self, idx):
        """unsubscribe THE built-in observer self.extra[idx] (there may be a twin of the same class and state)"""
        obj = self.extra[idx]
        before = self._extra_ids()
        if (idx + 1) not in before:
            return
        out, _ = _outcome(lambda: self.dispatcher.unsubscribe(obj))
        self._ev({"a": "UnsubBuiltin", "target": idx + 1, "before": before, "after": self._extra_ids(), "out": out})

    def create_or_get(self, cls):
        classes = {"rec": Rec, "hist": HistoryObserver, "histsub": HistSub}
        d = self.dispatcher
        before = list(d.subscribers)

        def go():
            # only asked when a match exists (a miss would construct an
            # object this session does not manage)
            return d.create_or_get_observer(classes[cls])

        out, obj = _outcome(go)
        self._ev({"a": "CreateOrGet", "cls": cls, "out": out,
                  "res": self._oid_of(obj) if out == "ok" else 0,
                  "same_subs": before == list(d.subscribers)})

    # -- built-in observers (C11 C12 C13 C17) --------------------------------
    def create_builtin(self, t, fts=None, **kw):
        """Construct a built-in observer of class name t on this dispatcher."""
        from job_shop_lib.dispatching import feature_observers as FO
        from job_shop_lib.dispatching import UnscheduledOperationsObserver, HistoryObserver as HO
        from job_shop_lib import reinforcement_learning as RL
        classes = {n: getattr(FO, n) for n in (
            "IsReadyObserver", "EarliestStartTimeObserver", "DurationObserver", "IsScheduledObserver",
            "PositionInJobObserver", "RemainingOperationsObserver", "IsCompletedObserver",
            "CompositeFeatureObserver")}
        classes.update({"UnscheduledOperationsObserver": UnscheduledOperationsObserver, "HistoryObserver": HO,
                        "MakespanReward": RL.MakespanReward, "IdleTimeReward": RL.IdleTimeReward})
        cls = classes[t]
        d = self.dispatcher

        def mk():
            if fts:
                return cls(d, feature_types=[FO.FeatureType(x) for x in fts], **kw)
            return cls(d, **kw)

        out, obj = _outcome(mk)
        actual = sorted(fts or [])
        if out == "ok":
            self.extra.append(obj)
            if hasattr(obj, "features"):
                actual = sorted(getattr(k, "value", str(k)) for k in obj.features)
        self._ev({"a": "CreateObs", "t": t, "fts": actual, "out": out,
                  # constructed with the default subscribe=True: the object itself is among the subscribers
                  "subscribed": bool(out != "ok" or kw.get("subscribe", True) is False
                                     or any(x is obj for x in d.subscribers))})
        return out

    def create_composite_from_configs(self, feats):
        """CompositeFeatureObserver.from_feature_observer_configs(dispatcher, configs): the composite is made of
        exactly the configured observers, in that order - whatever else is subscribed already.
        feats: [(class name, feature types or None), ...]"""
        from job_shop_lib.dispatching.feature_observers import CompositeFeatureObserver
        from .esession import _feature_configs
        d = self.dispatcher
        out, obj = _outcome(lambda: CompositeFeatureObserver.from_feature_observer_configs(d, _feature_configs(feats)))
        if out == "ok":
            self.extra.append(obj)
        self._ev({"a": "CreateObs", "t": "CompositeFeatureObserver", "fts": [], "out": out,
                  "subscribed": bool(out != "ok" or any(x is obj for x in d.subscribers)),
                  "configured": [t for (t, _f) in feats],
                  "component_types": [type(c).__name__ for c in obj.feature_observers] if out == "ok" else []})
        return out

    def subscribe_builtin(self, idx):
        """dispatcher.subscribe(obj) for a built-in observer that was constructed with subscribe=False"""
        obj = self.extra[idx]
        before = self._extra_ids()
        out, _ = _outcome(lambda: self.dispatcher.subscribe(obj))
        self._ev({"a": "SubBuiltin", "target": idx + 1, "before": before, "after": self._extra_ids(), "out": out})

    def create_graph_updater(self, builder, rm_machines=True, rm_jobs=True, subscribe=True):
        from job_shop_lib.graphs.graph_updaters import ResidualGraphUpdater
        d = self.dispatcher

        def mk():
            g = build_graph(builder, self.instance)
            u = ResidualGraphUpdater(d, g, remove_completed_machine_nodes=rm_machines,
                                     remove_completed_job_nodes=rm_jobs, **({} if subscribe else {"subscribe": False}))
            u._verif_builder = builder      # attribute of the harness' own, for the projection
            return u

        out, obj = _outcome(mk)
        if out == "ok":
            self.extra.append(obj)
        self._ev({"a": "CreateObs", "t": "ResidualGraphUpdater", "fts": [], "out": out, "builder": builder,
                  "rm_machines": bool(rm_machines), "rm_jobs": bool(rm_jobs),
                  "subscribed": bool(out != "ok" or not subscribe or any(x is obj for x in d.subscribers))})
        return out

    _earlier_graph = {}     # builder -> [graph object, node projection, edge projection] of the latest graph built by ANY session

    def graph_event(self, builder):
        out, g = _outcome(lambda: build_graph(builder, self.instance))
        nodes = obsproj.project_graph_nodes(g) if out == "ok" else []
        edges = obsproj.project_graph_edges(g) if out == "ok" else []
        # a graph that was built (and judged) earlier - usually for another instance - is still the same graph
        stable = True
        for (g0, n0, e0) in DSession._earlier_graph.values():
            o2, now = _outcome(lambda: (obsproj.project_graph_nodes(g0), obsproj.project_graph_edges(g0)))
            stable = stable and o2 == "ok" and now[0] == n0 and now[1] == e0
        if out == "ok":
            DSession._earlier_graph[builder] = [g, nodes, edges]
        self._ev({"a": "Graph", "builder": builder, "out": out, "nodes": nodes, "edges": edges,
                  "earlier_stable": bool(stable)})

    def solved_event(self, source="dispatcher"):
        """Solved disjunctive graph of a complete schedule (the dispatcher's, or one
        found by CP-SAT, which need not be semi-active); acyclicity and the longest
        duration-weighted path as the graph library computes them."""
        import networkx as nx
        from job_shop_lib.graphs import build_solved_disjunctive_graph
        box = {}

        def go():
            if source == "cpsat":
                from job_shop_lib.constraint_programming import ORToolsSolver
                box["s"] = ORToolsSolver().solve(self.instance)
            else:
                box["s"] = self.dispatcher.schedule
            g = build_solved_disjunctive_graph(box["s"])
            G = g.graph
            dag = nx.is_directed_acyclic_graph(G)
            longest = -1
            if dag:
                w = {n.node_id: (n.operation.duration if n.node_type.name == "OPERATION" else 0) for n in g.nodes}
                H = nx.DiGraph()
                H.add_nodes_from(G.nodes())
                for u, v in G.edges():
                    H.add_edge(u, v, weight=w[u])
                longest = nx.dag_longest_path_length(H, weight="weight")
            return g, dag, longest

        out, r = _outcome(go)
        self._ev({"a": "Solved", "out": out, "source": source,
                  "sched": model.project_schedule(box["s"]) if "s" in box else [],
                  "nodes": obsproj.project_graph_nodes(r[0]) if out == "ok" else [],
                  "edges": obsproj.project_graph_edges(r[0]) if out == "ok" else [],
                  "is_dag": bool(r[1]) if out == "ok" else False,
                  "longest": int(r[2]) if out == "ok" else -1})

    def create_or_get_cond(self, cls_name, need):
        """dispatcher.create_or_get_observer(cls, condition="has these feature types", feature_types=need)"""
        from job_shop_lib.dispatching import feature_observers as FO
        cls = getattr(FO, cls_name)
        fts = [FO.FeatureType(x) for x in need]
        d = self.dispatcher

        def go():
            def cond(o):
                return isinstance(o, cls) and all(ft in o.features for ft in fts)
            return d.create_or_get_observer(cls, condition=cond, feature_types=fts)

        out, obj = _outcome(go)
        idx = 0
        if out == "ok":
            for i, x in enumerate(d.subscribers):
                if x is obj:
                    idx = i + 1
        self._ev({"a": "CreateOrGetCond", "cls": cls_name, "need": list(need), "out": out, "res": idx})

    def fresh_run(self, creations, actions):
        """Same observers created in the same order on a FRESH dispatcher, the
        same calls made: its projection is logged next to the current one."""
        other = DSession(self.tid, self.inst, self.filt, ())
        for (t, fts) in creations:
            if t == "ResidualGraphUpdater":
                other.create_graph_updater(*fts)
            else:
                other.create_builtin(t, fts)
        for a in actions:
            if a["a"] == "D":
                other.dispatch(a["j"], a["p"], a["m"], none=bool(a.get("none", False)))
        p = other.post()
        self._ev({"a": "FreshRun", "core": p["core"], "obs": p["obs"]})

    # -- dispatching rules (C04) -------------------------------------------
    def rule_step(self, rule, chooser):
        """One DispatchingRuleSolver.step on this dispatcher.  A recording
        observer must be subscribed: what it is told is the selection."""
        from job_shop_lib.dispatching.rules import DispatchingRuleSolver
        solver = DispatchingRuleSolver(dispatching_rule=RULES[rule], machine_chooser=chooser,
                                       ready_operations_filter=None)
        out, _ = _outcome(lambda: solver.step(self.dispatcher))
        self._ev({"a": "RuleStep", "rule": rule, "chooser": chooser, "out": out})
        return out

    def rule_picks(self, rules):
        from job_shop_lib.dispatching.rules import dispatching_rule_factory
        picks = []
        for r in rules:
            fn = RULES[r]
            fn = dispatching_rule_factory(fn) if isinstance(fn, str) else fn
            out, op = _outcome(lambda: fn(self.dispatcher))
            picks.append({"rule": r, "out": out, "res": model.op_ref(op) if out == "ok" else [0, 0]})
        self._ev({"a": "RulePicks", "picks": picks})

    def score_rule(self, fns):
        from job_shop_lib.dispatching.rules import score_based_rule_with_tie_breaker, score_based_rule
        fs = [SCORES[f]() for f in fns]
        scores = []
        for f in fs:
            o, v = _outcome(lambda: [model.num(x) for x in f(self.dispatcher)])
            scores.append(v if o == "ok" else [])
        rule = score_based_rule(fs[0]) if len(fs) == 1 and self.tid % 2 else score_based_rule_with_tie_breaker(fs)
        out, op = _outcome(lambda: rule(self.dispatcher))
        self._ev({"a": "ScoreRule", "fns": list(fns), "scores": scores, "out": out,
                  "res": model.op_ref(op) if out == "ok" else [0, 0]})

    def solver_call(self, rule, chooser, filt):
        from job_shop_lib.dispatching.rules import DispatchingRuleSolver
        names = [model.FILTER_NAMES[f] for f in filt] if filt is not None else None
        if names is not None and len(names) == 1 and self.tid % 2:
            names = names[0]

        def go():
            solver = DispatchingRuleSolver(dispatching_rule=RULES[rule], machine_chooser=chooser,
                                           ready_operations_filter=names)
            return solver(self.instance)

        import time as _time
        t0 = _time.perf_counter()
        out, sch = _outcome(go)
        wall = _time.perf_counter() - t0
        ev = {"a": "SolverCall", "rule": rule, "chooser": chooser, "sfilt": list(filt or []), "out": out,
              "sched": [], "elapsed_sign": 0, "solved_by": "", "elapsed_le_wall": True}
        if out == "ok":
            el = sch.metadata.get("elapsed_time")
            ev.update({"sched": model.project_schedule(sch),
                       "elapsed_sign": (-2 if not isinstance(el, (int, float)) else (el > 0) - (el < 0)),
                       "elapsed_le_wall": bool(isinstance(el, (int, float)) and el <= wall + 0.05),
                       "solved_by": str(sch.metadata.get("solved_by"))})
        self._ev(ev)

    def replay(self, mode):
        """Re-dispatch the recorded history (as the GIF/video code does) on a
        fresh dispatcher or on this one after reset()."""
        hobs = [o for o in self.dispatcher.subscribers if isinstance(o, HistoryObserver)]
        if not hobs:
            return
        # the list object itself, as a caller holding `observer.history` would keep it (fresh: a copy is enough)
        history = hobs[0].history if mode == "reset" else list(hobs[0].history)

        def go():
            if mode == "fresh":
                d = model.make_dispatcher(self.instance, self.filt)
            else:
                d = self.dispatcher
                d.reset()
            for sop in list(history):
                d.dispatch(sop.operation, sop.machine_id)
            return model.project_schedule(d.schedule)

        out, res = _outcome(go)
        self._ev({"a": "Replay", "mode": mode, "out": out, "res": res if out == "ok" else []})

    # -- trace -------------------------------------------------------------
    def trace(self):
        t = {"tid": self.tid, "inst": self.inst, "filt": self.filt,
             "kinds": self.kinds, "events": self.events, "featcheck": False, "freshcheck": False,
             "fresh_obs": []}
        if self.header.get("fresh_obs"):
            t["freshcheck"] = True
        t.update(self.header)
        return t


def run_behaviour(tid, beh, extra_header=None) -> dict:
    """beh: {"inst", "filt", "kinds"?, "hist": [action records]}"""
    s = DSession(tid, beh["inst"], beh["filt"], beh.get("kinds", ()), extra_header)
    for a in beh["hist"]:
        k = a["a"]
        if k == "D":
            s.dispatch(a["j"], a["p"], a["m"], none=bool(a.get("none", False)))
        elif k == "R":
            s.dispatch(a["j"], a["p"], a["m"])
        elif k == "Reset":
            s.reset()
        elif k == "Q":
            s.query(a["q"])
        elif k == "QA":
            s.query_arg(a["q"], a["j"], a["p"], a.get("m", 0))
        elif k == "F":
            s.apply_filter(a["names"], a["L"])
        elif k == "Create":
            s.create(a["o"])
        elif k == "Unsub":
            s.unsubscribe(a["o"])
        elif k == "CreateOrGet":
            s.create_or_get(a["cls"])
        elif k == "Finish":
            pass
        else:
            raise ValueError(f"unknown action {a}")
    return s.trace()


def rerun_trace(tid, trace) -> dict:
    """Re-execute the calls recorded in a trace against the current tree."""
    s = DSession(tid, trace["inst"], trace["filt"], trace.get("kinds", ()))
    for ev in trace["events"]:
        a = ev["a"]
        if a == "Init":
            continue
        if a == "Dispatch" and "foreign_like" in ev:
            s.dispatch(ev["j"], ev["foreign_like"], ev["m"], foreign=True)
        elif a == "Dispatch":
            s.dispatch(ev["j"], ev["p"], ev["m"], none=bool(ev.get("none", False)))
        elif a == "UnsubBuiltin":
            s.unsubscribe_builtin(ev["target"] - 1)
        elif a == "SubBuiltin":
            s.subscribe_builtin(ev["target"] - 1)
        elif a == "Reset":
            s.reset()
        elif a == "Query":
            s.query(ev["q"])
        elif a == "QueryArg" and ev["q"] == "min_start_time":
            s.query_min_start(ev["L"])
        elif a == "QueryArg":
            s.query_arg(ev["q"], ev["j"], ev["p"], ev.get("m", 0), after_reject=bool(ev.get("after_reject", False)))
        elif a == "Filter":
            s.apply_filter(ev["names"], ev["L"])
        elif a == "Create":
            s.create(ev["o"], detached=bool(ev.get("detached", False)))
        elif a == "Unsub":
            s.unsubscribe(ev["o"])
        elif a == "CreateOrGet":
            s.create_or_get(ev["cls"])
        elif a == "Replay":
            s.replay(ev["mode"])
        elif a == "CreateObs" and ev["t"] == "ResidualGraphUpdater":
            s.create_graph_updater(ev["builder"], ev["rm_machines"], ev["rm_jobs"])
        elif a == "CreateObs":
            s.create_builtin(ev["t"], ev["fts"])
        elif a == "Graph":
            s.graph_event(ev["builder"])
        elif a == "Solved":
            s.solved_event(ev.get("source", "dispatcher"))
        elif a == "CreateOrGetCond":
            s.create_or_get_cond(ev["cls"], ev["need"])
        elif a == "FreshRun":
            creations = [(e["t"], (e["builder"], e["rm_machines"], e["rm_jobs"])
                          if e["t"] == "ResidualGraphUpdater" else e["fts"])
                         for e in trace["events"] if e["a"] == "CreateObs" and e["out"] == "ok"]
            acts, cur = [], []
            for e in trace["events"]:
                if e is ev:
                    break
                if e["a"] == "Reset":
                    cur = []
                elif e["a"] == "Dispatch" and e["out"] == "ok":
                    cur.append({"a": "D", "j": e["j"], "p": e["p"], "m": e["m"], "none": e.get("none", False)})
            s.fresh_run(creations, cur)
        elif a == "RuleStep":
            s.rule_step(ev["rule"], ev["chooser"])
        elif a == "RulePicks":
            s.rule_picks([p["rule"] for p in ev["picks"]])
        elif a == "ScoreRule":
            s.score_rule(ev["fns"])
        elif a == "SolverCall":
            s.solver_call(ev["rule"], ev["chooser"], ev["sfilt"])
        else:
            raise ValueError(a)
    return s.trace()
