--------------------------- MODULE Gen_Dispatcher ---------------------------
(***************************************************************************)
(* Behaviour generator (spec -> code): the Dispatcher specification with a *)
(* history variable recording the calls made.  Every explored behaviour is *)
(* printed as one JSON line when it Finishes; the harness replays it        *)
(* against the real library.  `hist` lives only here (it makes the state   *)
(* graph a tree) - never in the MC_* models.                               *)
(*                                                                         *)
(* Budgets keep the tree finite: at most MaxFaults rejected requests,      *)
(* MaxResets resets, MaxQueries queries per behaviour.                     *)
(***************************************************************************)
EXTENDS Dispatcher, Families, Json

CONSTANTS MaxFaults, MaxResets, MaxQueries, MaxObsOps, Mode
VARIABLES hist, done

gvars == <<vars, hist, done>>

Count(k) == Cardinality({i \in DOMAIN hist : hist[i].a = k})

GInit == Init /\ hist = <<>> /\ done = FALSE

GDispatch == \E j \in Jobs(inst) : \E m \in Machines(inst) :
    /\ Dispatch(j, m)
    /\ hist' = Append(hist, [a |-> "D", j |-> j, p |-> nxt[j], m |-> m])
GReject == \E j \in Jobs(inst) : \E p \in 1..JobLen(inst, j) : \E m \in 0..(NM(inst) + 1) :
    /\ Count("R") < MaxFaults
    /\ Reject(j, p, m)
    /\ hist' = Append(hist, [a |-> "R", j |-> j, p |-> p, m |-> m])
(* machine_id=None on a flexible operation (m = -1 on the abstract side) *)
GRejectNone == \E j \in Jobs(inst) :
    /\ Count("R") < MaxFaults
    /\ Idle /\ nxt[j] <= JobLen(inst, j) /\ Len(inst[j][nxt[j]].ms) > 1
    /\ last' = [kind |-> "rejected", pre |-> State, preLog |-> olog, preSubs |-> subs]
    /\ UNCHANGED <<inst, filt, sched, nxt, jfree, mfree, cache, subs, olog, ghost, pend>>
    /\ hist' = Append(hist, [a |-> "R", j |-> j, p |-> nxt[j], m |-> -1])
GReset ==
    /\ Count("Reset") < MaxResets
    /\ Reset
    /\ hist' = Append(hist, [a |-> "Reset"])
GQuery == \E q \in QueryNames :
    /\ Count("Q") < MaxQueries
    /\ Query(q)
    /\ hist' = Append(hist, [a |-> "Q", q |-> q])
GCreate == \E o \in Obs :
    /\ Count("Create") + Count("Unsub") < MaxObsOps
    /\ Create(o)
    /\ hist' = Append(hist, [a |-> "Create", o |-> o])
GUnsub == \E o \in Obs :
    /\ Count("Create") + Count("Unsub") < MaxObsOps
    /\ Unsubscribe(o)
    /\ hist' = Append(hist, [a |-> "Unsub", o |-> o])
GNotify == Notify /\ UNCHANGED hist
GBegin == Begin /\ UNCHANGED hist
GFinish == Idle /\ done' = TRUE /\ UNCHANGED <<vars, hist>>

GNext ==
    /\ ~done
    /\ \/ (GDispatch \/ GReject \/ GRejectNone \/ GReset \/ GQuery \/ GCreate \/ GUnsub \/ GNotify \/ GBegin) /\ UNCHANGED done
       \/ (GFinish /\ (Mode = "prefixes" \/ Complete(inst, sched)))
GSpec == GInit /\ [][GNext]_gvars

Emit == done => PrintT(<<"H", ToJson([inst |-> inst, filt |-> filt, kinds |-> ObsKinds, hist |-> hist])>>)
=============================================================================
