from . import dchecks, rchecks

CHECKS = {}
REPLAYERS = {}
CHECKS.update(dchecks.CHECKS)
CHECKS.update(rchecks.CHECKS)
