----------------------------- MODULE Dispatcher -----------------------------
(***************************************************************************)
(* The Dispatcher state machine of job_shop_lib/dispatching/_dispatcher.py *)
(* structured like the code: one action per public call, the notification  *)
(* of each subscriber as its own step, the memoisation cache as a          *)
(* variable, rejected requests as explicit (stuttering) actions.           *)
(*                                                                         *)
(* The instance and the filter composition are VARIABLES fixed by Init, so *)
(* "for every instance, for every filter configuration" is part of what    *)
(* TLC explores and one module serves every recorded trace.                *)
(*                                                                         *)
(* Constants switch single clauses to known-wrong variants ("design        *)
(* mutants"); the all-"ok" setting is the specification.                   *)
(***************************************************************************)
EXTENDS JobShop

CONSTANTS
    InstFamily,      \* set of instances explored
    FiltFamily,      \* set of filter compositions (sequences of names)
    NObs,            \* size of the pool of observer objects (0: none)
    ObsKinds,        \* function 1..NObs -> observer type name
    MutStart,        \* "ok" | "min" | "machine_only"
    MutCache,        \* "ok" | "clear_after_notify" | "no_clear_on_dispatch" | "alias_uncompleted" | "no_clear_on_reset"
    MutValidate,     \* "ok" | "after_tracking" | "skip_ready" | "skip_eligible"
    MutNotify        \* "ok" | "twice" | "reverse" | "on_reject"

VARIABLES
    inst, filt,              \* fixed in Init
    sched, nxt, jfree, mfree,\* the dispatcher's own state
    cache,                   \* memoised query results: name :> value
    subs,                    \* subscribed observer ids, in subscription order
    olog,                    \* per observer id: what it has been told (sequence)
    ghost,                   \* per observer id: what it should have been told
    pend,                    \* notifications still to deliver for the last call
    last                     \* outcome of the last call ("ok" | "rejected" | "none"), with the pre-state

coreVars == <<sched, nxt, jfree, mfree>>
vars == <<inst, filt, sched, nxt, jfree, mfree, cache, subs, olog, ghost, pend, last>>

State == [sched |-> sched, nxt |-> nxt, jfree |-> jfree, mfree |-> mfree]
Obs == 1..NObs
Empty == [x \in {} |-> 0]

-----------------------------------------------------------------------------
(* type hierarchy of the observers in the pool: "hist" and "histsub" are     *)
(* singletons ("histsub" is a subclass of "hist"); "rec" is not a singleton *)
SubsKinds == [i \in DOMAIN subs |-> ObsKinds[subs[i]]]

Init ==
    /\ inst \in InstFamily
    /\ filt \in FiltFamily
    /\ sched = InitState(inst).sched /\ nxt = InitState(inst).nxt
    /\ jfree = InitState(inst).jfree /\ mfree = InitState(inst).mfree
    /\ cache = Empty
    /\ subs = <<>>
    /\ olog = [o \in Obs |-> <<>>]
    /\ ghost = [o \in Obs |-> <<>>]
    /\ pend = <<>>
    /\ last = [kind |-> "none"]

(* The first step of every behaviour only marks it as started: the initial     *)
(* states stay cheap to enumerate (TLC does that single-threaded) and the     *)
(* invariants, guarded by Started, are evaluated by the parallel workers.     *)
Started == last.kind # "none"
Begin == ~Started /\ last' = [kind |-> "ok"]
         /\ UNCHANGED <<inst, filt, sched, nxt, jfree, mfree, cache, subs, olog, ghost, pend>>
Idle == pend = <<>> /\ Started

-----------------------------------------------------------------------------
(* the start rule, with its mutants *)
StartOf(s, j, m) ==
    CASE MutStart = "ok"           -> StartTime(s, j, m)
      [] MutStart = "min"          -> Min2(s.mfree[m], s.jfree[j])
      [] MutStart = "machine_only" -> s.mfree[m]
CommitOf(I, s, j, m) ==
    IF MutStart = "ok" THEN DispatchNext(I, s, j, m)
    ELSE LET p == s.nxt[j]  st == StartOf(s, j, m)  en == st + Dur(I, <<j, p>>)
         IN [sched |-> [s.sched EXCEPT ![m] = Append(@, <<j, p, st>>)],
             nxt |-> [s.nxt EXCEPT ![j] = p + 1],
             jfree |-> [s.jfree EXCEPT ![j] = en],
             mfree |-> [s.mfree EXCEPT ![m] = en]]

Accepts(j, p, m) ==
    CASE MutValidate = "skip_ready"    -> j \in Jobs(inst) /\ p \in 1..JobLen(inst, j) /\ m \in MSet(inst, <<j, p>>)
      [] MutValidate = "skip_eligible" -> j \in Jobs(inst) /\ p \in 1..JobLen(inst, j) /\ nxt[j] = p /\ m \in Machines(inst)
      [] OTHER -> ValidRequest(inst, State, j, p, m)

(* dispatch(operation (j,p), machine m): accepted.  In the specification an   *)
(* accepted request always names the next operation of its job (p = nxt[j]);  *)
(* the position is explicit so that the "readiness not checked" mutant can    *)
(* accept - and schedule - an operation that is not next.                     *)
CommitOfP(I, s, j, p, m) ==
    IF MutStart = "ok" /\ p = s.nxt[j] THEN DispatchNext(I, s, j, m)
    ELSE LET st == StartOf(s, j, m)  en == st + Dur(I, <<j, p>>)
         IN [sched |-> [s.sched EXCEPT ![m] = Append(@, <<j, p, st>>)],
             nxt |-> [s.nxt EXCEPT ![j] = @ + 1],
             jfree |-> [s.jfree EXCEPT ![j] = en],
             mfree |-> [s.mfree EXCEPT ![m] = en]]
DispatchP(j, p, m) ==
    /\ Idle
    /\ j \in Jobs(inst) /\ p \in 1..JobLen(inst, j)
    /\ Accepts(j, p, m)
    /\ LET n == CommitOfP(inst, State, j, p, m)
           e == <<j, p, m, n.sched[m][Len(n.sched[m])][3]>>
       IN /\ sched' = n.sched /\ nxt' = n.nxt /\ jfree' = n.jfree /\ mfree' = n.mfree
          /\ cache' = IF MutCache \in {"clear_after_notify", "no_clear_on_dispatch"} THEN cache ELSE Empty
          /\ pend' = CASE MutNotify = "twice"   -> [i \in 1..(2 * Len(subs)) |-> <<"update", subs[(i + 1) \div 2], e>>]
                       [] MutNotify = "reverse" -> [i \in 1..Len(subs) |-> <<"update", subs[Len(subs) + 1 - i], e>>]
                       [] OTHER                 -> [i \in 1..Len(subs) |-> <<"update", subs[i], e>>]
          /\ ghost' = [o \in Obs |-> IF o \in Rng(subs) THEN Append(ghost[o], <<"update", e>>) ELSE ghost[o]]
          /\ last' = [kind |-> "ok"]
    /\ UNCHANGED <<inst, filt, subs, olog>>
Dispatch(j, m) ==
    IF MutValidate = "skip_ready"
    THEN \E p \in 1..JobLen(inst, j) : nxt[j] <= JobLen(inst, j) /\ DispatchP(j, p, m)
    ELSE nxt[j] <= JobLen(inst, j) /\ DispatchP(j, nxt[j], m)

(* dispatch of an operation that is not next / on an ineligible machine /    *)
(* with an out-of-range machine id (m = 0 and m = NM+1 stand for those):     *)
(* raises, nothing changes.  p ranges over every position of the job.        *)
Reject(j, p, m) ==
    /\ Idle
    /\ j \in Jobs(inst) /\ p \in 1..JobLen(inst, j) /\ m \in 0..(NM(inst) + 1)
    /\ ~Accepts(j, p, m)
    /\ IF MutValidate = "after_tracking" /\ nxt[j] = p /\ m \in Machines(inst)
       THEN \* tracking updated before the eligibility check fails
            LET n == CommitOf(inst, State, j, m)
            IN nxt' = n.nxt /\ jfree' = n.jfree /\ mfree' = n.mfree /\ sched' = sched
       ELSE UNCHANGED coreVars
    /\ pend' = IF MutNotify = "on_reject"
               THEN [i \in 1..Len(subs) |-> <<"update", subs[i], <<j, p, m, 0>>>>]
               ELSE <<>>
    /\ last' = [kind |-> "rejected", pre |-> State, preLog |-> olog, preSubs |-> subs]
    /\ UNCHANGED <<inst, filt, cache, subs, olog, ghost>>

(* reset(): own state, cache, then every subscriber's reset() in order *)
Reset ==
    /\ Idle
    /\ sched' = InitState(inst).sched /\ nxt' = InitState(inst).nxt
    /\ jfree' = InitState(inst).jfree /\ mfree' = InitState(inst).mfree
    /\ cache' = IF MutCache = "no_clear_on_reset" THEN cache ELSE Empty
    /\ pend' = [i \in 1..Len(subs) |-> <<"reset", subs[i], <<>>>>]
    /\ ghost' = [o \in Obs |-> IF o \in Rng(subs) THEN Append(ghost[o], <<"reset">>) ELSE ghost[o]]
    /\ last' = [kind |-> "ok"]
    /\ UNCHANGED <<inst, filt, subs, olog>>

(* a memoised query q: returns the cached value if present, otherwise       *)
(* computes it (memoising q and every memoised query it evaluates)           *)
Fill(c, q) ==
    LET need == CallClosure(q) \ DOMAIN c
    IN [x \in DOMAIN c \cup need |->
          IF x \in DOMAIN c THEN c[x] ELSE QueryValue(inst, State, filt, x)]
FillM(c, q) ==     \* with the aliasing mutant: "uncompleted" extends the cached "unscheduled" list in place
    LET c1 == Fill(c, q)
    IN IF MutCache = "alias_uncompleted" /\ q = "uncompleted_operations" /\ q \notin DOMAIN c
       THEN [c1 EXCEPT !["unscheduled_operations"] = c1["uncompleted_operations"]]
       ELSE c1
Query(q) ==
    /\ Idle
    /\ q \in QueryNames
    /\ cache' = FillM(cache, q)
    /\ last' = [kind |-> "query", q |-> q, result |-> cache'[q]]
    /\ UNCHANGED <<inst, filt, sched, nxt, jfree, mfree, subs, olog, ghost, pend>>

(* delivery of one pending notification; the observer looks at the          *)
(* dispatcher through the memoised query scheduled_operations()              *)
Notify ==
    /\ pend # <<>>
    /\ LET n == Head(pend)  o == n[2]
           c1 == Fill(cache, "scheduled_operations")
           seen == IF n[1] = "reset" THEN <<"reset">>
                   ELSE <<"update", n[3]>>
           sawIt == IF n[1] = "reset" THEN c1["scheduled_operations"] = <<>>
                    ELSE <<n[3][1], n[3][2]>> \in Rng(c1["scheduled_operations"])
       IN /\ olog' = [olog EXCEPT ![o] = Append(@, IF sawIt THEN seen ELSE <<"stale", seen>>)]
          /\ pend' = Tail(pend)
          /\ cache' = IF Len(pend) = 1 /\ MutCache = "clear_after_notify" THEN Empty ELSE c1
    /\ UNCHANGED <<inst, filt, sched, nxt, jfree, mfree, subs, ghost, last>>

(* constructing an observer object o of the pool with subscribe=True:        *)
(* singleton rule first, then appended to the subscribers                    *)
Create(o) ==
    /\ Idle /\ o \in Obs /\ o \notin Rng(subs)
    /\ IF SingletonConflict(SubsKinds, ObsKinds[o])
       THEN /\ UNCHANGED subs
            /\ last' = [kind |-> "rejected", pre |-> State, preLog |-> [olog EXCEPT ![o] = <<>>], preSubs |-> subs]
       ELSE /\ subs' = Append(subs, o)
            /\ last' = [kind |-> "ok"]
    \* a constructor call yields a NEW object: whatever the pool slot held before is forgotten
    /\ olog' = [olog EXCEPT ![o] = <<>>] /\ ghost' = [ghost EXCEPT ![o] = <<>>]
    /\ UNCHANGED <<inst, filt, sched, nxt, jfree, mfree, cache, pend>>

Unsubscribe(o) ==
    /\ Idle /\ o \in Rng(subs)
    /\ subs' = SelectSeq(subs, LAMBDA x : x # o)
    /\ last' = [kind |-> "ok"]
    /\ UNCHANGED <<inst, filt, sched, nxt, jfree, mfree, cache, olog, ghost, pend>>

(* create_or_get_observer(cls): the first subscriber that is an instance of  *)
(* cls, else a new object of the pool                                        *)
CreateOrGetResult(cls) ==
    LET i == FirstInstanceIdx(SubsKinds, cls) IN IF i = 0 THEN 0 ELSE subs[i]

-----------------------------------------------------------------------------
NextCore ==                      \* C01 C02 C06: dispatches only
    \/ Begin
    \/ \E j \in Jobs(inst) : \E m \in Machines(inst) : Dispatch(j, m)
NextFaults ==                    \* + C09: rejected requests, resets
    \/ NextCore
    \/ \E j \in Jobs(inst) : \E p \in 1..JobLen(inst, j) : \E m \in 0..(NM(inst) + 1) : Reject(j, p, m)
    \/ Reset
    \/ Notify
NextQueries ==                   \* + C05: memoised queries in any order
    \/ NextCore \/ Reset \/ Notify
    \/ \E q \in QueryNames : Query(q)
NextObservers ==                 \* + C10: observers come and go
    \/ NextFaults
    \/ \E o \in Obs : Create(o) \/ Unsubscribe(o)
NextObsQueries ==                \* + queries between the calls (what an observer sees goes through the cache)
    \/ NextObservers
    \/ \E q \in {"scheduled_operations", "current_time"} : Query(q)

SpecCore == Init /\ [][NextCore]_vars
SpecFaults == Init /\ [][NextFaults]_vars
SpecQueries == Init /\ [][NextQueries]_vars
SpecObservers == Init /\ [][NextObservers]_vars
SpecObsQueries == Init /\ [][NextObsQueries]_vars

-----------------------------------------------------------------------------
(* Properties *)

TypeOK ==
    /\ DOMAIN sched = Machines(inst) /\ DOMAIN nxt = Jobs(inst)
    /\ \A j \in Jobs(inst) : nxt[j] \in 1..(JobLen(inst, j) + 1)

(* C01 *)
Inv_Feasible == Started =>
   (
 Feasible(inst, sched)
   )
Inv_CompleteAfterN == Started =>
   (
 (NumScheduled(sched) = NumOps(inst)) <=> Complete(inst, sched)
   )
(* C02 *)
Inv_Tracking == Started =>
   (
 TrackingOK(inst, State)
   )
Inv_SemiActive == Started =>
   (
 SemiActive(inst, sched)
   )
Inv_Makespan == Started =>
   (
 Makespan(inst, sched) = MakespanDef(inst, sched)
   )
(* C05 *)
Inv_CacheCoherent == Started =>
   (
 \A q \in DOMAIN cache : cache[q] = QueryValue(inst, State, filt, q)
   )
Inv_Partitions == Started =>
   (

    LET S == ScheduledOps(sched)  U == UnscheduledOps(inst, sched)
        G == OngoingOps(inst, State, filt)  C == CompletedOps(inst, State, filt)
    IN /\ S \cup U = AllOps(inst) /\ S \cap U = {}
       /\ G \cup C = S /\ G \cap C = {}
       /\ UncompletedOps(inst, State, filt) = U \cup G
       /\ S = Rng(ScheduledSeq(inst, State)) /\ U = Rng(UnscheduledSeq(inst, State))
   )
(* C06 *)
(* stated one step ahead (as state predicates over every accepted dispatch) *)
Succs == {CommitOf(inst, State, jm[1], jm[2]) :
            jm \in {x \in Jobs(inst) \X Machines(inst) :
                       nxt[x[1]] <= JobLen(inst, x[1]) /\ Accepts(x[1], nxt[x[1]], x[2])}}
TimeCarveOut == filt = <<>> \/ PositiveDurations(inst)
Inv_TimeMonotone == Started =>
   (

    TimeCarveOut => \A n \in Succs : Now(inst, n, filt) >= Now(inst, State, filt)
   )
Inv_CompletedGrows == Started =>
   (

    TimeCarveOut => \A n \in Succs : CompletedOps(inst, State, filt) \subseteq CompletedOps(inst, n, filt)
   )
Inv_EndNow == Started =>
   (
 Complete(inst, sched) => Now(inst, State, filt) = Makespan(inst, sched)
   )
Inv_FilterKeepsNow == Started =>
   (
 PositiveDurations(inst) => Now(inst, State, filt) = Now(inst, State, <<>>)
   )
(* C07 (deadlock freedom of the installed composition) *)
Inv_NoDeadlock == Started =>
   (
 ~Complete(inst, sched) => Avail(inst, State, filt) # <<>>
   )
(* C09 *)
Inv_RejectChangesNothing == Started =>
   (

    (Idle /\ last.kind = "rejected") => (State = last.pre /\ olog = last.preLog /\ subs = last.preSubs)
   )
(* C10 *)
Inv_Notifications == Started =>
   (
 Idle => \A o \in Obs : olog[o] = ghost[o]
   )
Inv_NotifyInOrder == Started =>
   (
     \* what is still pending is a suffix of the subscribers, in order
    \A i, k \in DOMAIN pend : i < k =>
        \E a, b \in DOMAIN subs : a < b /\ subs[a] = pend[i][2] /\ subs[b] = pend[k][2]
   )
Inv_SeesPostState == Started =>
   (
 \A o \in Obs : \A i \in DOMAIN olog[o] : olog[o][i][1] # "stale"
   )
Inv_Singleton == Started =>
   (

    \A a, b \in DOMAIN subs : (a # b /\ IsSingletonKind(ObsKinds[subs[b]]) /\ a < b)
                                 => ~IsInstanceOf(ObsKinds[subs[a]], ObsKinds[subs[b]])
   )
Inv_History == Started =>
   (
           \* the history observer's record equals the dispatch sequence since reset
    Idle => \A o \in Rng(subs) : \A i \in DOMAIN olog[o] :
               olog[o][i][1] = "update" =>
                  LET e == olog[o][i][2] IN <<e[1], e[2], e[4]>> \in Rng(sched[e[3]])
                     \/ \E k \in (i + 1)..Len(olog[o]) : olog[o][k][1] = "reset"
   )
=============================================================================
