------------------------------ MODULE Families ------------------------------
(* Bounded families of instances and filter compositions used by the MC_*   *)
(* and Gen_* models.  A family is described by job-length shapes, the       *)
(* number of machines, and the allowed durations; every operation ranges    *)
(* over every non-empty set of eligible machines (flexible instances,       *)
(* recirculation, unused and gapped machine ids all occur).                 *)
EXTENDS JobShop

MSeqs(M) == {SetAsSeq(S) : S \in (SUBSET (1..M)) \ {{}}}
SingleMSeqs(M) == {<<m>> : m \in 1..M}
OpChoices(MS, Durs) == {[ms |-> q, d |-> d] : q \in MS, d \in Durs}
RECURSIVE InstOfShape(_, _, _)
InstOfShape(shape, MS, Durs) ==
    IF shape = <<>> THEN {<<>>}
    ELSE {<<job>> \o rest : job \in [1..Head(shape) -> OpChoices(MS, Durs)],
                            rest \in InstOfShape(Tail(shape), MS, Durs)}
Family(shapes, MS, Durs) == UNION {InstOfShape(sh, MS, Durs) : sh \in shapes}

AllFilters == {"dom", "idle", "immops", "immmach"}
FiltNone == {<<>>}
FiltSingles == {<<f>> : f \in AllFilters}
FiltPairs == {<<f, g>> : f \in AllFilters, g \in AllFilters}
FiltDefault == {<<"dom", "idle">>}
FiltTriples == {<<"dom", "idle", "immops">>, <<"immmach", "dom", "idle">>, <<"idle", "immops", "dom">>,
                <<"immops", "immmach", "dom">>, <<"dom", "immmach", "immops">>, <<"idle", "dom", "immmach">>}
=============================================================================
