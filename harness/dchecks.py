"""Checks for the dispatcher-level properties C01 C02 C05 C06 C07 C09 C10."""
from __future__ import annotations

import random

from . import scenarios
from .framework import Check
from .scenarios import Probed, random_behaviour, tlc_behaviours, tlc_built_behaviours

BASE = {"NObs": 0, "ObsKinds": "<- NoKinds"}


def _fam(tier):
    return ("MC_Core_T.tla" if tier == "thorough" else "MC_Core_Q.tla")


def _core_consts(filt="Filt"):
    c = dict(BASE)
    c.update({"InstFamily": "<- Fam", "FiltFamily": "<- " + filt})
    return c


def _run_traces(chk: Check, behs, source, make=None, start_tid=1, **probe_kw):
    traces, bmap = [], {}
    for i, b in enumerate(behs):
        tid = start_tid + i
        if make:
            t = make(tid, b)
        else:
            t = Probed(tid, b, rng=random.Random(chk.seed * 1000003 + tid), **probe_kw).run()
        traces.append(t)
        bmap[tid] = b
    chk.monitor(traces, source=source, behaviours=bmap)
    return len(traces)


def _rules_then_queries_traces(chk, behs, rng, queries, start_tid, source):
    """Dispatching rules are asked in every state BEFORE the queries: a rule that edits the list it was handed by a
    memoised query (available operations) changes what the next caller of that query - and of everything derived
    from it, the current time included - gets."""
    from . import dsession as _ds
    traces = []
    for i, b in enumerate(behs):
        s = _ds.DSession(start_tid + i, b["inst"], b["filt"], ())
        for a in [{"a": "start"}] + list(b["hist"]):
            if a["a"] == "D":
                s.dispatch(a["j"], a["p"], a["m"])
            elif a["a"] == "Reset":
                s.reset()
            elif a["a"] != "start":
                continue
            if not s.dispatcher.schedule.is_complete():
                s.score_rule(rng.sample(["spt_score", "fcfs_score", "mwkr_score", "mor_score"], rng.randint(1, 3)))
                if rng.random() < 0.5:
                    s.rule_picks(rng.sample(["spt", "fcfs", "mwkr", "mor", "obs_mwkr"], 2))
            for q in queries(rng):
                s.query(q)
        traces.append(s.trace())
    chk.monitor(traces, source=source)
    return len(traces)


def _builtin_observer_query_traces(chk, behs, rng, queries, start_tid, source):
    """The dispatcher's answers with the LIBRARY'S OWN observers subscribed (feature observers, rewards, history,
    residual graph updater - the environments' default company): an observer that writes through a memoised answer
    it was handed (a set, a list) corrupts what the next caller gets."""
    from . import dsession as _ds
    from .ochecks import random_creations
    traces = []
    for i, b in enumerate(behs):
        s = _ds.DSession(start_tid + i, b["inst"], b["filt"], ())
        cr = random_creations(rng)
        upd = rng.random() < 0.8
        pos = rng.randint(0, len(cr))
        for k, (t, a) in enumerate(cr):
            if upd and k == pos:
                s.create_graph_updater(rng.choice(["disjunctive", "agent_task", "agent_task_with_jobs"]), True, True)
            s.create_builtin(t, a)
        if upd and pos >= len(cr):
            s.create_graph_updater(rng.choice(["disjunctive", "agent_task"]), True, True)
        for q in queries(rng):
            s.query(q)
        for a in b["hist"]:
            if a["a"] == "D":
                s.dispatch(a["j"], a["p"], a["m"])
            elif a["a"] == "Reset":
                s.reset()
            elif a["a"] == "R":
                s.dispatch(a["j"], a["p"], a["m"])
            else:
                continue
            for q in queries(rng):
                s.query(q)
        traces.append(s.trace())
    chk.monitor(traces, source=source)
    return len(traces)


BIG = (2 ** 24 + 1, 2 ** 25 + 3, 2 ** 24 + 6, 1, 7, 0)     # time in fine units: beyond what a 32-bit float resolves


def _big_duration_behaviours(rng, n, **kw):
    return [random_behaviour(rng, max_jobs=4, max_ops=4, max_m=3, durs=BIG, **kw) for _ in range(n)]


def _n(chk, quick, thorough):
    return min(thorough, 5 * quick) if chk.tier == "thorough" else quick   # thorough is capped at 5x quick: every tier must finish well inside its timeout on a shared machine


# ---------------------------------------------------------------------------
def c01():
    chk = Check("C01", "model_checking")
    chk.mc(_fam(chk.tier), "SpecCore", _core_consts(),
           ["TypeOK", "Inv_Feasible", "Inv_CompleteAfterN"], timeout=3000)
    # beyond every bound of the model checker: machine-checked proof for arbitrary finite instances
    chk.tlaps_proof()
    if chk.tier == "thorough":
        # inductive invariant for 3x3x3 with symbolic durations / machine sets (Apalache)
        chk.apalache_inductive()
    behs, r = tlc_behaviours("c01", fam="FamA", filt="FiltA", mode="complete",
                             simulate=f"num={_n(chk, 500, 4000)}", workers=4)
    n = _run_traces(chk, behs, "tlc-simulated")
    behs, r = tlc_behaviours("c01p", fam="FamA", filt="FiltA", mode="prefixes", faults=1, resets=1,
                             simulate=f"num={_n(chk, 150, 1500)}", workers=4)
    n += _run_traces(chk, behs, "tlc-simulated-prefixes-faults-resets", start_tid=n + 1)
    behs, r = tlc_built_behaviours("c01b", faults=1, resets=1, simulate=f"num={_n(chk, 60, 800)}")
    n += _run_traces(chk, behs, "tlc-built-larger-instances", start_tid=n + 1)
    if chk.tier == "thorough":
        behs3, _ = tlc_behaviours("c01m3", fam="FamM3", filt="FiltAll2", mode="complete",
                                  simulate="num=2000", workers=4)
        n += _run_traces(chk, behs3, "tlc-simulated-3-machines", start_tid=n + 1)
    rng = random.Random(chk.seed)
    rb = [random_behaviour(rng, faults=0.05, max_jobs=5, max_ops=5, max_m=4)
          for _ in range(_n(chk, 150, 1500))]
    qp = lambda r: [r.choice(scenarios.QUERIES)] if r.random() < 0.5 else []  # noqa: E731
    n += _run_traces(chk, rb, "random-large+queries-in-between", start_tid=n + 1, query_probe=qp, arg_probe=True)
    n += _run_traces(chk, _big_duration_behaviours(rng, _n(chk, 40, 300), faults=0.05), "durations-in-fine-time-units",
                     start_tid=n + 1, query_probe=qp)
    _builtin_observer_query_traces(chk, rb[: _n(chk, 50, 300)], rng, lambda r: [], n + 1,
                                   "with-the-library's-own-observers-subscribed")
    return chk.finish(
        "TLC: every reachable state of the Dispatcher spec over the instance family x filter "
        "compositions; traces: TLC-simulated behaviours (every prefix length) replayed on the real "
        "Dispatcher + random walks on larger flexible/zero-duration/recirculating instances; a case "
        "is distinct by (instance, filter, call sequence with outcomes)")


def c02():
    chk = Check("C02", "model_checking")
    chk.mc(_fam(chk.tier), "SpecCore", _core_consts(),
           ["Inv_Tracking", "Inv_SemiActive", "Inv_Makespan"], timeout=3000)
    if chk.tier == "thorough":
        chk.tlaps_proof()            # (also part of C01's quick tier)
        chk.apalache_inductive()
    behs, _ = tlc_behaviours("c02", fam="FamA", filt="FiltB", resets=1, faults=2, mode="complete", simulate=f"num={_n(chk, 400, 3000)}", workers=4)
    # a HistoryObserver subscribed from the start, so that the recorded history can be replayed
    for b in behs:
        b["kinds"] = ["hist"]
        b["hist"] = [{"a": "Create", "o": 1}] + b["hist"]
    # memoised and uncached queries between the dispatches: a start time must not depend on what was asked before
    qp = lambda r: [r.choice(scenarios.QUERIES)] if r.random() < 0.7 else []  # noqa: E731
    n = _run_traces(chk, behs, "tlc-simulated+replay", replay_probe=True, query_probe=qp, arg_probe=True)
    rng = random.Random(chk.seed + 2)
    rb = []
    for _ in range(_n(chk, 150, 1500)):
        b = random_behaviour(rng, resets=0.03, faults=0.15, max_jobs=5, max_ops=5, max_m=4)
        b["kinds"] = ["hist"]
        b["hist"] = [{"a": "Create", "o": 1}] + b["hist"]
        rb.append(b)
    n += _run_traces(chk, rb, "random-large+replay", start_tid=n + 1, replay_probe=True, query_probe=qp, arg_probe=True)
    n += _run_traces(chk, _big_duration_behaviours(rng, _n(chk, 40, 300), resets=0.03, faults=0.1),
                     "durations-in-fine-time-units", start_tid=n + 1, query_probe=qp, arg_probe=True)
    _builtin_observer_query_traces(chk, rb[: _n(chk, 50, 300)], rng, lambda r: [], n + 1,
                                   "with-the-library's-own-observers-subscribed")
    return chk.finish(
        "TLC: tracking = derive(schedule), forced starts, makespan in every reachable state; traces: "
        "every dispatch step compared with the specification's step, plus the recorded history "
        "re-dispatched on a fresh and on a reset dispatcher (the GIF code path)")


def c05():
    chk = Check("C05", "model_checking")
    hist = "MC_Hist_T.tla" if chk.tier == "thorough" else "MC_Hist_Q.tla"
    c = dict(BASE)
    c.update({"InstFamily": "<- FamTiny", "FiltFamily": "<- Filt"})
    chk.mc(hist, "SpecQueries", c, ["Inv_CacheCoherent", "Inv_Partitions"],
           constraints=["Depth9" if chk.tier == "quick" else "Depth10"], timeout=3000)
    chk.mc(_fam("quick"), "SpecCore", _core_consts(), ["Inv_Partitions"], name="C05-core")
    # TLC chooses the query sequences between dispatches
    behs, _ = tlc_behaviours("c05", fam="FamA", filt="FiltB", queries=6, resets=1, mode="complete",
                             simulate=f"num={_n(chk, 250, 3000)}", workers=4, depth=60)
    n = _run_traces(chk, behs, "tlc-simulated-queries", arg_probe=True)
    # every ordered pair (thorough: triple) of memoised queries, each issued twice, in every state
    rng = random.Random(chk.seed + 5)

    def qprobe(r):
        k = 3 if chk.tier == "thorough" else 2
        qs = [r.choice(scenarios.QUERIES) for _ in range(k)]
        return qs + qs

    rb = [random_behaviour(rng, resets=0.03, max_jobs=4, max_ops=4, max_m=3) for _ in range(_n(chk, 120, 1200))]
    _run_traces(chk, rb, "random-large-query-probes", start_tid=n + 1, query_probe=qprobe, arg_probe=True)
    # the unscheduled-operations observer, attached at the start or in the middle of a history
    from .ochecks import feature_trace
    traces = []
    base = n + len(rb) + 1
    for i, b in enumerate(behs[: _n(chk, 150, 1200)] + rb[: _n(chk, 60, 600)]):
        cut = rng.randint(0, len(b["hist"]))
        s = __import__("harness.dsession", fromlist=["DSession"]).DSession(base + i, b["inst"], b["filt"], ())
        s.header["featcheck"] = True
        for k, a in enumerate(b["hist"]):
            if k == cut:
                s.create_builtin("UnscheduledOperationsObserver")
            if a["a"] == "D":
                s.dispatch(a["j"], a["p"], a["m"])
            elif a["a"] == "Reset":
                s.reset()
        if cut >= len(b["hist"]):
            s.create_builtin("UnscheduledOperationsObserver")
        traces.append(s.trace())
    chk.monitor(traces, source="unscheduled-observer-attached-mid-history")
    k0 = _builtin_observer_query_traces(chk, behs[: _n(chk, 40, 300)] + rb[: _n(chk, 40, 300)], rng, qprobe,
                                        base + len(traces) + 1, "queries-with-built-in-observers-subscribed")
    _rules_then_queries_traces(chk, rb[: _n(chk, 50, 300)], rng, qprobe, base + len(traces) + k0 + 1,
                               "queries-after-dispatching-rules-were-asked")
    return chk.finish(
        "TLC: memoisation cache as a state variable, every order of the ten memoised queries "
        "interleaved with dispatches and resets (bounded depth); traces: TLC-chosen query "
        "sequences and random query tuples issued twice in every visited state, plus the uncached "
        "queries for every operation; results compared with the definitions (bags where order is "
        "incidental)")


def c06():
    chk = Check("C06", "model_checking")
    chk.mc(_fam(chk.tier), "SpecCore", _core_consts(),
           ["Inv_TimeMonotone", "Inv_CompletedGrows", "Inv_EndNow", "Inv_FilterKeepsNow"], timeout=3000)
    behs, _ = tlc_behaviours("c06", fam="FamA", filt="FiltA", mode="complete",
                             simulate=f"num={_n(chk, 500, 4000)}", workers=4)
    probe = lambda r: ["current_time", "completed_operations"]  # noqa: E731
    n = _run_traces(chk, behs, "tlc-simulated", query_probe=probe, min_start_probe=True)
    behs, _ = tlc_built_behaviours("c06b", simulate=f"num={_n(chk, 50, 600)}")
    n += _run_traces(chk, behs, "tlc-built-larger-instances", start_tid=n + 1, query_probe=probe, min_start_probe=True)
    rng = random.Random(chk.seed + 6)
    rb = [random_behaviour(rng, max_jobs=5, max_ops=5, max_m=4, durs=(1, 2, 3, 5, 8) if i % 2 else (0, 1, 2, 3))
          for i in range(_n(chk, 150, 1500))]
    n += _run_traces(chk, rb, "random-large", start_tid=n + 1, query_probe=probe, min_start_probe=True)
    # several episodes on one dispatcher: time starts again at 0 after a reset and ends at THIS episode's makespan
    behs_r, _ = tlc_behaviours("c06r", fam="FamA", filt="FiltA", mode="complete", resets=2,
                               simulate=f"num={_n(chk, 200, 1500)}", workers=4, depth=60)
    rb_r = [random_behaviour(rng, resets=0.12, max_jobs=4, max_ops=4, max_m=3) for _ in range(_n(chk, 100, 800))]
    n += _run_traces(chk, behs_r + rb_r, "episodes-separated-by-resets", start_tid=n + 1, query_probe=probe)
    n += _builtin_observer_query_traces(chk, behs[: _n(chk, 60, 400)] + rb[: _n(chk, 40, 300)] + rb_r[: _n(chk, 30, 200)],
                                        rng, probe, n + 1, "time-and-completed-set-with-built-in-observers-subscribed")
    _rules_then_queries_traces(chk, rb[: _n(chk, 60, 300)] + behs[: _n(chk, 40, 200)], rng, probe, n + 1,
                               "time-and-completed-set-after-dispatching-rules-were-asked")
    return chk.finish(
        "TLC: now' >= now and completed' >= completed for every accepted dispatch from every "
        "reachable state (no filter: all instances; filters: positive durations), now = makespan "
        "when complete, filters never change now; traces: current_time()/completed_operations() "
        "read after every call and compared, consecutive logged states related by the same predicates")


def c07():
    chk = Check("C07", "model_checking")
    chk.mc(_fam(chk.tier), "SpecCore", _core_consts("FiltNone"),
           ["Inv_FilterSound3" if chk.tier == "thorough" else "Inv_FilterSound2", "Inv_FilterIdempotent"],
           timeout=3000, name="C07-sound")
    chk.mc(_fam(chk.tier), "SpecCore", _core_consts(), ["Inv_NoDeadlock"], timeout=3000, name="C07-deadlock")
    behs, _ = tlc_behaviours("c07", fam="FamA", filt="FiltA", mode="complete",
                             simulate=f"num={_n(chk, 250, 2000)}", workers=4)

    singles = [[f] for f in scenarios.FILTERS]
    pairs = [[f, g] for f in scenarios.FILTERS for g in scenarios.FILTERS]

    def fprobe(r):
        out = list(singles) + r.sample(pairs, 4 if chk.tier == "quick" else 16)
        if chk.tier == "thorough":
            out += [[r.choice(scenarios.FILTERS) for _ in range(3)] for _ in range(4)]
        return out

    from . import model as _model
    _model.FILTER_STYLE["mix"] = True       # names / enum members / functions, lists / generators / iterators
    n = _run_traces(chk, behs, "tlc-simulated-filter-probes", filter_probe=fprobe)
    rng = random.Random(chk.seed + 7)
    rb = [random_behaviour(rng, max_jobs=4, max_ops=4, max_m=3) for _ in range(_n(chk, 80, 800))]
    n += _run_traces(chk, rb, "random-large-filter-probes", start_tid=n + 1, filter_probe=fprobe)
    # several episodes on one dispatcher: a filter must not remember anything of the episode before the reset
    from .ochecks import three_episodes
    eps = [three_episodes(b, rng) for b in rb[: _n(chk, 30, 150)]]
    _run_traces(chk, eps, "three-episodes-filter-probes", start_tid=n + 1,
                filter_probe=lambda r: list(singles) + r.sample(pairs, 2))
    return chk.finish(
        "TLC: every composition of <= 2 (thorough: 3) filters on every non-empty sub-list of the ready "
        "operations in every reachable state returns a non-empty duplicate-free sub-list; no deadlock "
        "under the installed composition; traces: each built-in filter and sampled compositions "
        "applied by the real code to every non-empty sub-list in every visited state, result compared "
        "AS A SEQUENCE with the documented criterion")


def c09():
    chk = Check("C09", "model_checking")
    hist = "MC_Hist_T.tla" if chk.tier == "thorough" else "MC_Hist_Q.tla"
    c = {"NObs": 0, "ObsKinds": "<- NoKinds", "InstFamily": "<- Fam", "FiltFamily": "<- Filt"}
    chk.mc(hist, "SpecFaults", c, ["Inv_RejectChangesNothing", "Inv_Feasible", "Inv_Tracking"],
           constraints=["Depth8" if chk.tier == "quick" else "Depth10"], timeout=3000, name="C09-faults")
    c = {"NObs": 2, "ObsKinds": "<- Kinds2", "InstFamily": "<- FamTiny", "FiltFamily": "<- Filt"}
    chk.mc(hist, "SpecObservers", c, ["Inv_RejectChangesNothing", "Inv_Notifications"],
           constraints=["Depth8"], timeout=3000, name="C09-observers")
    behs, _ = tlc_behaviours("c09", fam="FamA", filt="FiltB", nobs=3, kinds="K3", obsops=3, faults=3,
                             resets=1, mode="complete", simulate=f"num={_n(chk, 600, 5000)}", workers=4, depth=60)
    n = _run_traces(chk, behs, "tlc-simulated-faults", post_reject_probe=True)
    rng = random.Random(chk.seed + 9)
    rb = [random_behaviour(rng, faults=0.3, resets=0.02, kinds=("rec", "hist", "rec"), obsops=0.05,
                           max_jobs=5, max_ops=5, max_m=4) for _ in range(_n(chk, 150, 1500))]
    _run_traces(chk, rb, "random-large-faults", start_tid=n + 1, arg_probe=True)
    _builtin_observer_query_traces(chk, rb[: _n(chk, 50, 300)], rng, lambda r: [], 50000,
                                   "invalid-requests-with-the-library's-own-observers-subscribed")
    # the environment: steps for finished jobs, ineligible / out-of-range / negative machine ids, -1 on flexible operations
    from .echecks import env_trace, random_env_cfg
    base = n + len(rb) + 1
    eb = behs[: _n(chk, 60, 500)] + rb[: _n(chk, 40, 400)]
    traces = [env_trace(base + i, b, random_env_cfg(rng, True), rng, episodes=rng.choice([1, 2]), fault_prob=0.4)
              for i, b in enumerate(eb)]
    chk.monitor(traces, source="environment-steps-with-invalid-decisions")
    from .echecks import multi_traces
    mt, t0 = [], base + len(eb) + 1
    for gi, gk in enumerate([dict(num_jobs=(2, 3), num_machines=(2, 4), duration_range=(1, 5)),
                             dict(num_jobs=(2, 4), num_machines=(1, 3), duration_range=(1, 3))]):
        for rep in range(_n(chk, 2, 6)):
            ts = multi_traces(t0, rng, dict(gk, seed=chk.seed * 50 + 7 * gi + rep), random_env_cfg(rng, True),
                              resets=_n(chk, 10, 30), steps_rng=rng, fault_prob=0.5)
            t0 += len(ts) + 1
            mt.extend(ts)
    chk.monitor(mt, source="multi-environment-steps-with-invalid-decisions")
    return chk.finish(
        "TLC: rejected requests (not-next operation, ineligible machine, machine id 0 / M+1, None on a "
        "flexible operation) enabled exactly when invalid and leaving every variable unchanged, at every "
        "position of every bounded behaviour; traces: TLC-injected invalid requests replayed on the real "
        "dispatcher with recording observers subscribed: exception <=> invalid, state/observers/cache "
        "unchanged, the rest of the behaviour still conforms")


def c10():
    chk = Check("C10", "model_checking")
    hist = "MC_Hist_T.tla" if chk.tier == "thorough" else "MC_Hist_Q.tla"
    c = {"NObs": 3, "ObsKinds": "<- Kinds3", "InstFamily": "<- FamTiny", "FiltFamily": "<- Filt"}
    chk.mc(hist, "SpecObsQueries", c,
           ["Inv_Notifications", "Inv_NotifyInOrder", "Inv_SeesPostState", "Inv_Singleton", "Inv_History"],
           constraints=["Depth8" if chk.tier == "quick" else "Depth9"], timeout=3000)
    behs, _ = tlc_behaviours("c10", fam="FamB", filt="FiltB", nobs=4, kinds="K4", obsops=5, faults=1,
                             resets=2, mode="prefixes", simulate=f"num={_n(chk, 120, 1500)}", workers=4, depth=60)
    n = _run_traces(chk, behs, "tlc-simulated-observers", create_or_get_probe=True)
    rng = random.Random(chk.seed + 10)
    rb = [random_behaviour(rng, faults=0.05, resets=0.05, kinds=("rec", "histsub", "hist", "rec"), obsops=0.15,
                           max_jobs=4, max_ops=4, max_m=3) for _ in range(_n(chk, 150, 1500))]
    _run_traces(chk, rb, "random-large-observers", start_tid=n + 1, create_or_get_probe=True)
    # observers constructed with subscribe=False receive nothing and are not subscribed
    det = []
    for i, b in enumerate(behs[: _n(chk, 150, 1000)]):
        b2 = dict(b, kinds=["rec", "hist", "histsub", "rec"])
        pre = [{"a": "Create", "o": 1}, {"a": "Create", "o": 2, "detached": True},
               {"a": "Create", "o": 4, "detached": True}]
        if i % 2:
            pre = [{"a": "Create", "o": 3, "detached": True}, {"a": "Create", "o": 4}]
        b2["hist"] = pre + [a for a in b["hist"] if a["a"] in ("D", "R", "Reset")]
        det.append(b2)
    n += _run_traces(chk, det, "detached-observers", start_tid=n + len(rb) + 1)
    # create_or_get_observer with a condition, on built-in (non-singleton) feature observers
    import itertools as _it
    from . import dsession as _ds
    specs = [("RemainingOperationsObserver", ["jobs"]), ("RemainingOperationsObserver", ["machines", "jobs"]),
             ("RemainingOperationsObserver", ["machines"]), ("DurationObserver", ["operations"]),
             ("DurationObserver", ["jobs"]), ("DurationObserver", ["machines", "jobs"]),
             ("IsReadyObserver", ["jobs"]), ("IsReadyObserver", ["operations", "jobs"])]
    traces = []
    base = n + len(rb) + len(det) + 1
    for i in range(_n(chk, 60, 400)):
        b = behs[i % len(behs)]
        s = _ds.DSession(base + i, b["inst"], b["filt"], ())
        created = rng.sample(specs, rng.randint(1, 4))
        for (t, fts) in created:
            s.create_builtin(t, fts)
        for (t, fts) in rng.sample(specs, 3) + [rng.choice(created)]:
            s.create_or_get_cond(t, fts)
        if rng.random() < 0.5:
            s.create_builtin("IsCompletedObserver", rng.choice([["machines", "jobs"], ["jobs"], None]))
            s.create_or_get_cond("RemainingOperationsObserver", ["jobs"])
        traces.append(s.trace())
    chk.monitor(traces, source="create-or-get-with-condition")
    # twins: several built-in observers of one class (and therefore of equal state); one of them is unsubscribed
    traces = []
    twins = [("DurationObserver", None), ("IsReadyObserver", ["jobs"]), ("IsScheduledObserver", None),
             ("PositionInJobObserver", None), ("EarliestStartTimeObserver", None)]
    for i in range(_n(chk, 40, 300)):
        b = behs[(3 * i) % len(behs)]
        s = _ds.DSession(base + 1000 + i, b["inst"], b["filt"], ())
        t, fts = rng.choice(twins)
        for _ in range(rng.randint(2, 3)):
            s.create_builtin(t, fts)
        if rng.random() < 0.5:
            s.create_builtin(*rng.choice(twins))
        acts = [a for a in b["hist"] if a["a"] == "D"]
        cut = rng.randint(0, len(acts))
        for a in acts[:cut]:
            s.dispatch(a["j"], a["p"], a["m"])
        order = list(range(len(s.extra)))
        rng.shuffle(order)
        for k in order[: rng.randint(1, len(order))]:
            s.unsubscribe_builtin(k)
            if acts[cut:] and rng.random() < 0.5:
                a = acts[cut]
                cut += 1
                s.dispatch(a["j"], a["p"], a["m"])
        for a in acts[cut:]:
            s.dispatch(a["j"], a["p"], a["m"])
        traces.append(s.trace())
    chk.monitor(traces, source="unsubscribe-one-of-several-built-in-twins")
    return chk.finish(
        "TLC: one Notify step per subscriber; notification log = dispatches made while subscribed, in "
        "subscription order, each seeing the post-state through the memoised queries; singleton rule with "
        "subclassing; traces: recording observers (plain, HistoryObserver, subclass of it) created / "
        "unsubscribed / reset at TLC-chosen points, what each saw inside update() compared")


CHECKS = {"C01": c01, "C02": c02, "C05": c05, "C06": c06, "C07": c07, "C09": c09, "C10": c10}
