------------------------------- MODULE Rules -------------------------------
(***************************************************************************)
(* Dispatching rules, scoring functions and the rule-solver loop           *)
(* (job_shop_lib/dispatching/rules).  Pure operators over (I, s, F).       *)
(***************************************************************************)
EXTENDS JobShop

RuleNames == {"spt", "fcfs", "mwkr", "mor"}

(* remaining work / operations of a job *)
JobWorkRemaining(I, s, j) == SumSeq([k \in 1..(Len(I[j]) + 1 - s.nxt[j]) |-> I[j][s.nxt[j] + k - 1].d])
JobOpsUncompleted(I, s, F, j) == Cardinality({o \in UncompletedOps(I, s, F) : o[1] = j})

(* the documented criterion of each rule as "larger is better" *)
RuleScore(rule, I, s, F, o) ==
    CASE rule = "spt"  -> 0 - Dur(I, o)                       \* shortest duration
      [] rule = "fcfs" -> 0 - o[2]                            \* lowest position in job
      [] rule = "mwkr" -> JobWorkRemaining(I, s, o[1])        \* most remaining job work
      [] rule = "mor"  -> JobOpsUncompleted(I, s, F, o[1])    \* most remaining job operations
BestUnder(rule, I, s, F) ==
    LET A == Rng(Avail(I, s, F))
    IN {o \in A : \A x \in A : RuleScore(rule, I, s, F, o) >= RuleScore(rule, I, s, F, x)}

(* what the observer-based most-work-remaining scorer reads: the job feature  *)
(* of a DurationObserver (initial job duration minus the durations of the     *)
(* operations dispatched so far), zeroed for jobs that are not ready          *)
ObsJobDuration(I, s, j) ==
    JobDuration(I, j) - SumSeq([p \in 1..(s.nxt[j] - 1) |-> I[j][p].d])
ObsMwkrScore(I, s, F, j) == IF j \in AvailJobs(I, s, F) THEN ObsJobDuration(I, s, j) ELSE 0
BestUnderObsMwkr(I, s, F) ==
    LET A == Rng(Avail(I, s, F))
    IN {o \in A : \A x \in A : ObsMwkrScore(I, s, F, o[1]) >= ObsMwkrScore(I, s, F, x[1])}

(* built-in scoring functions: one score per job *)
ScoreNames == {"spt_score", "fcfs_score", "mwkr_score", "mor_score"}
AvailOpOfJob(I, s, F, j) ==
    LET A == Avail(I, s, F)  hits == {i \in DOMAIN A : A[i][1] = j}
    IN IF hits = {} THEN <<>> ELSE <<A[MaxOf(hits)]>>
ScoreVector(fn, I, s, F) ==
    [j \in Jobs(I) |->
       LET a == AvailOpOfJob(I, s, F, j) IN
       CASE fn = "spt_score"  -> IF a = <<>> THEN 0 ELSE 0 - Dur(I, a[1])
         [] fn = "fcfs_score" -> IF a = <<>> THEN 0 ELSE OpId(I, a[1]) - 1      \* 0-based operation id
         [] fn = "mwkr_score" -> ObsMwkrScore(I, s, F, j)
         [] fn = "mor_score"  -> JobOpsUncompleted(I, s, F, j)]
(* lexicographically best available operations under score vectors V1, V2, ... *)
RECURSIVE LexFilter(_, _)
LexFilter(cands, Vs) ==
    IF Vs = <<>> \/ Cardinality(cands) <= 1 THEN cands
    ELSE LET V == Head(Vs)
             best == MaxOf({V[o[1]] : o \in cands})
         IN LexFilter({o \in cands : V[o[1]] = best}, Tail(Vs))
LexBest(Vs, I, s, F) == LexFilter(Rng(Avail(I, s, F)), Vs)
=============================================================================
