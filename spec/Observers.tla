----------------------------- MODULE Observers -----------------------------
(***************************************************************************)
(* The built-in observers (job_shop_lib/dispatching/feature_observers,     *)
(* _unscheduled_operations_observer, _history_observer,                    *)
(* reinforcement_learning/_reward_observers) in two layers:                *)
(*                                                                         *)
(*  (1) IMPLEMENTATION-SHAPED: one record per subscribed observer with the *)
(*      state the object keeps (feature arrays, the earliest-start matrix, *)
(*      the IsCompleted counters, deques, reward lists) and ObsCreate /    *)
(*      ObsUpdate / ObsReset transcribed from the constructors, update()   *)
(*      and reset() - including who reads whose state, and when.           *)
(*  (2) DEFINITIONAL: FeatTrue - what the documentation defines, computed  *)
(*      from the instance and the schedule only (C11), reward sums (C13).  *)
(*                                                                         *)
(* An observer record: [t |-> class name, f |-> [feature type |-> rows],   *)
(* ... type-specific fields].  Rows are sequences (feature size 1 except   *)
(* for the composite).  Subscribers are a sequence of such records, in     *)
(* subscription order.                                                     *)
(***************************************************************************)
EXTENDS Rules

NANV == -999001                       \* how the recorder encodes NaN
OPS == "operations"  MACH == "machines"  JOBS == "jobs"
Max3(a, b, c) == Max2(a, Max2(b, c))
Rows(q) == [i \in DOMAIN q |-> <<q[i]>>]               \* column vector -> rows
Has(o, ft) == ft \in DOMAIN o.f
OpSeq(I) == AllOpsSeq(I)                               \* operations by id
B(x) == IF x THEN 1 ELSE 0

(* first subscriber satisfying P (create_or_get_observer), 0 if none *)
FirstIdx(subs, P(_)) == LET hits == {i \in DOMAIN subs : P(subs[i])} IN IF hits = {} THEN 0 ELSE MinOf(hits)

-----------------------------------------------------------------------------
(* (1a) values of the feature arrays as the code computes them *)

IsReadyFeat(I, s, F, ft) ==
    CASE ft = OPS  -> Rows([i \in 1..NumOps(I) |-> B(OpSeq(I)[i] \in Rng(Avail(I, s, F)))])
      [] ft = MACH -> Rows([m \in Machines(I) |-> B(m \in AvailMachines(I, s, F))])
      [] ft = JOBS -> Rows([j \in Jobs(I) |-> B(j \in AvailJobs(I, s, F))])

(* earliest-start matrix: J x MaxJobLen, NaN beyond the end of a job *)
EstInit(I) == [j \in Jobs(I) |-> [p \in 1..MaxJobLen(I) |->
                  IF p <= Len(I[j]) THEN SumSeq([q \in 1..(p - 1) |-> I[j][q].d]) ELSE NANV]]
ShiftFrom(I, E, j, p, gap) ==     \* est[j, p:] += gap (NaN cells stay NaN)
    [E EXCEPT ![j] = [q \in DOMAIN @ |-> IF q >= p /\ q <= Len(I[j]) THEN @[q] + gap ELSE @[q]]]
EstAfterUpdate(I, s, E, e) ==     \* s: state after the dispatch of e = <<j, p, m, st>>
    LET j == e[1]  m == e[3]  en == e[4] + Dur(I, <<e[1], e[2]>>)
        ni == s.nxt[j]
        E1 == IF ni <= Len(I[j])
              THEN LET old == E[j][ni]
                       new == Max3(en, old, EarliestStart(I, s, <<j, ni>>))
                   IN ShiftFrom(I, E, j, ni, new - old)
              ELSE E
        L == SelectSeq(OpsByMachine(I, m), LAMBDA x : x[2] >= s.nxt[x[1]])
        gaps == [k \in DOMAIN L |-> Max2(en, E1[L[k][1]][L[k][2]]) - E1[L[k][1]][L[k][2]]]
        RECURSIVE apply(_, _)
        apply(X, k) == IF k > Len(L) THEN X ELSE apply(ShiftFrom(I, X, L[k][1], L[k][2], gaps[k]), k + 1)
    IN apply(E1, 1)
EstFeat(I, s, F, E, ft, old) ==
    LET now == Now(I, s, F) IN
    CASE ft = OPS  -> Rows([i \in 1..NumOps(I) |-> E[OpSeq(I)[i][1]][OpSeq(I)[i][2]] - now])
      [] ft = MACH -> Rows([m \in Machines(I) |->
                         LET U == {x \in Rng(OpsByMachine(I, m)) : x[2] >= s.nxt[x[1]]}
                         IN (IF U = {} THEN 0 ELSE MinOf({E[x[1]][x[2]] : x \in U})) - now])
      [] ft = JOBS -> [j \in Jobs(I) |-> IF s.nxt[j] <= Len(I[j]) THEN <<E[j][s.nxt[j]] - now>> ELSE old[j]]

DurationInit(I, ft) ==
    CASE ft = OPS  -> Rows([i \in 1..NumOps(I) |-> Dur(I, OpSeq(I)[i])])
      [] ft = MACH -> Rows([m \in Machines(I) |-> MachineLoad(I, m)])
      [] ft = JOBS -> Rows([j \in Jobs(I) |-> JobDuration(I, j)])
RemainingDuration(I, s, F, e) ==       \* e = <<j, p, m, st>>
    (e[4] + Dur(I, <<e[1], e[2]>>)) - Max2(e[4], Now(I, s, F))
DurationUpd(I, s, F, ft, old, e) ==
    LET d == Dur(I, <<e[1], e[2]>>) IN
    CASE ft = OPS  -> [old EXCEPT ![OpId(I, <<e[1], e[2]>>)] = <<RemainingDuration(I, s, F, e)>>]
      [] ft = MACH -> [old EXCEPT ![e[3]] = <<@[1] - d>>]
      [] ft = JOBS -> [old EXCEPT ![e[1]] = <<@[1] - d>>]

IsScheduledUpd(I, s, F, ft, old, e) ==
    CASE ft = OPS  -> [old EXCEPT ![OpId(I, <<e[1], e[2]>>)] = <<1>>]
      [] ft = MACH -> Rows([m \in Machines(I) |-> Cardinality({x \in OngoingE(I, s, F) : x \in Rng(s.sched[m])})])
      [] ft = JOBS -> Rows([j \in Jobs(I) |-> Cardinality({x \in OngoingE(I, s, F) : x[1] = j})])

PositionInit(I, s) ==
    Rows([i \in 1..NumOps(I) |-> LET o == OpSeq(I)[i] IN IF o[2] >= s.nxt[o[1]] THEN o[2] - 1 ELSE 0])
PositionUpd(I, old, e) ==
    [i \in DOMAIN old |-> LET o == OpSeq(I)[i] IN
        IF o[1] = e[1] /\ o[2] > e[2] THEN <<o[2] - e[2] - 1>> ELSE old[i]]

Zeros(I, ft) ==
    CASE ft = OPS -> Rows([i \in 1..NumOps(I) |-> 0])
      [] ft = MACH -> Rows([m \in Machines(I) |-> 0])
      [] ft = JOBS -> Rows([j \in Jobs(I) |-> 0])
ZeroF(I, fts) == [ft \in fts |-> Zeros(I, ft)]

(* RemainingOperations counts what the UnscheduledOperationsObserver it finds holds NOW *)
RemainingFrom(I, dq, ft) ==
    LET ops == UNION {Rng(dq[j]) : j \in DOMAIN dq} IN
    CASE ft = JOBS -> Rows([j \in Jobs(I) |-> Len(dq[j])])
      [] ft = MACH -> Rows([m \in Machines(I) |-> Cardinality({o \in ops : m \in MSet(I, o)})])
RemainingUpd(ft, old, e) ==
    CASE ft = JOBS -> [old EXCEPT ![e[1]] = <<@[1] - 1>>]
      [] ft = MACH -> [old EXCEPT ![e[3]] = <<@[1] - 1>>]

DequesFor(I, s) == [j \in Jobs(I) |-> [k \in 1..(Len(I[j]) + 1 - s.nxt[j]) |-> <<j, s.nxt[j] + k - 1>>]]

-----------------------------------------------------------------------------
(* (1b) dependencies: which subscriber an observer reads *)
IsUnsched(x) == x.t = "UnscheduledOperationsObserver"
RemainingDepIdx(subs) == FirstIdx(subs, IsUnsched)
NonOpFts(o) == DOMAIN o.f \ {OPS}
CompletedDepIdx(subs, o) ==
    LET P(x) == x.t = "RemainingOperationsObserver" /\ NonOpFts(o) \subseteq DOMAIN x.f
    IN FirstIdx(subs, P)

-----------------------------------------------------------------------------
(* (1b') construction with subscribe=True on a dispatcher in state s: the     *)
(* base constructor subscribes the object BEFORE the subclass constructor     *)
(* creates the observers it depends on, so dependencies end up AFTER it.      *)
NewUnsched(I, s) == [t |-> "UnscheduledOperationsObserver", dq |-> DequesFor(I, s),
                     n |-> NumOps(I) - NumScheduled(s.sched)]
CreateUnsched(I, s, subs) == Append(subs, NewUnsched(I, s))
CreateRemaining(I, s, subs, fts) ==
    LET L1 == Append(subs, [t |-> "RemainingOperationsObserver", f |-> ZeroF(I, fts)])
        i == Len(L1)
        L2 == IF RemainingDepIdx(L1) = 0 THEN CreateUnsched(I, s, L1) ELSE L1
        dq == L2[RemainingDepIdx(L2)].dq
    IN [L2 EXCEPT ![i].f = [ft \in fts |-> RemainingFrom(I, dq, ft)]]
CreateCompleted(I, s, subs, fts) ==
    LET o0 == [t |-> "IsCompletedObserver", f |-> ZeroF(I, fts),
               rm |-> [m \in Machines(I) |-> 0], rj |-> [j \in Jobs(I) |-> 0]]
        L1 == Append(subs, o0)
        i == Len(L1)
        L2 == IF CompletedDepIdx(L1, o0) = 0 THEN CreateRemaining(I, s, L1, fts \ {OPS}) ELSE L1
        dep == L2[CompletedDepIdx(L2, o0)]
    IN [L2 EXCEPT ![i].rm = IF MACH \in fts THEN [m \in DOMAIN dep.f[MACH] |-> dep.f[MACH][m][1]] ELSE @,
                  ![i].rj = IF JOBS \in fts THEN [j \in DOMAIN dep.f[JOBS] |-> dep.f[JOBS][j][1]] ELSE @]
ObsCreate(I, s, F, subs, t, fts) ==
    CASE t = "IsReadyObserver" -> Append(subs, [t |-> t, f |-> [ft \in fts |-> IsReadyFeat(I, s, F, ft)]])
      [] t = "EarliestStartTimeObserver" ->
            Append(subs, [t |-> t, est |-> EstInit(I),
                          f |-> [ft \in fts |-> EstFeat(I, s, F, EstInit(I), ft, Zeros(I, ft))]])
      [] t = "DurationObserver" -> Append(subs, [t |-> t, f |-> [ft \in fts |-> DurationInit(I, ft)]])
      [] t = "IsScheduledObserver" -> Append(subs, [t |-> t, f |-> ZeroF(I, fts)])
      [] t = "PositionInJobObserver" -> Append(subs, [t |-> t, f |-> [ft \in fts |-> PositionInit(I, s)]])
      [] t = "RemainingOperationsObserver" -> CreateRemaining(I, s, subs, fts)
      [] t = "IsCompletedObserver" -> CreateCompleted(I, s, subs, fts)
      [] t = "UnscheduledOperationsObserver" -> CreateUnsched(I, s, subs)
      [] t = "HistoryObserver" -> Append(subs, [t |-> t, hist |-> <<>>])
      [] t = "MakespanReward" -> Append(subs, [t |-> t, rewards |-> <<>>, cur |-> Makespan(I, s.sched)])
      [] t = "IdleTimeReward" -> Append(subs, [t |-> t, rewards |-> <<>>])
SupportedFts(t) ==
    CASE t = "PositionInJobObserver" -> {OPS}
      [] t = "RemainingOperationsObserver" -> {MACH, JOBS}
      [] OTHER -> {OPS, MACH, JOBS}
RECURSIVE CreateAll(_, _, _, _)
CreateAll(I, s, F, order) ==      \* order: sequence of <<class name, feature types>>
    IF order = <<>> THEN <<>>
    ELSE LET before == CreateAll(I, s, F, SubSeq(order, 1, Len(order) - 1))
             x == order[Len(order)]
         IN ObsCreate(I, s, F, before, x[1], x[2])

-----------------------------------------------------------------------------
(* (1c) update(): observer i of `subs` is told about e; observers before i  *)
(* have already been updated (subs is the partially updated list)           *)
ObsUpdate(I, s, F, subs, i, e) ==
    LET o == subs[i]  t == o.t IN
    CASE t = "IsReadyObserver" ->
            [o EXCEPT !.f = [ft \in DOMAIN o.f |-> IsReadyFeat(I, s, F, ft)]]
      [] t = "EarliestStartTimeObserver" ->
            LET E == EstAfterUpdate(I, s, o.est, e)
            IN [o EXCEPT !.est = E, !.f = [ft \in DOMAIN o.f |-> EstFeat(I, s, F, E, ft, o.f[ft])]]
      [] t = "DurationObserver" ->
            [o EXCEPT !.f = [ft \in DOMAIN o.f |-> DurationUpd(I, s, F, ft, o.f[ft], e)]]
      [] t = "IsScheduledObserver" ->
            [o EXCEPT !.f = [ft \in DOMAIN o.f |-> IsScheduledUpd(I, s, F, ft, o.f[ft], e)]]
      [] t = "PositionInJobObserver" ->
            [o EXCEPT !.f = [ft \in DOMAIN o.f |-> PositionUpd(I, o.f[ft], e)]]
      [] t = "RemainingOperationsObserver" ->
            [o EXCEPT !.f = [ft \in DOMAIN o.f |-> RemainingUpd(ft, o.f[ft], e)]]
      [] t = "IsCompletedObserver" ->
            LET ms == MSet(I, <<e[1], e[2]>>)
                rm == IF Has(o, MACH) THEN [m \in DOMAIN o.rm |-> IF m \in ms THEN o.rm[m] - 1 ELSE o.rm[m]] ELSE o.rm
                rj == IF Has(o, JOBS) THEN [o.rj EXCEPT ![e[1]] = @ - 1] ELSE o.rj
                done == CompletedOps(I, s, F)
            IN [o EXCEPT !.rm = rm, !.rj = rj,
                         !.f = [ft \in DOMAIN o.f |->
                            CASE ft = OPS  -> [k \in DOMAIN o.f[ft] |-> IF OpSeq(I)[k] \in done THEN <<1>> ELSE o.f[ft][k]]
                              [] ft = MACH -> [m \in DOMAIN o.f[ft] |-> IF m \in ms THEN <<B(rm[m] = 0)>> ELSE o.f[ft][m]]
                              [] ft = JOBS -> [o.f[ft] EXCEPT ![e[1]] = <<B(rj[e[1]] = 0)>>]]]
      [] t = "CompositeFeatureObserver" ->
            [o EXCEPT !.f = [ft \in DOMAIN o.f |->
                LET parts == SelectSeq(o.comps, LAMBDA c : c # 0 /\ ft \in DOMAIN subs[c].f)
                    n == Len(o.f[ft])
                IN [r \in 1..n |-> Concat([k \in DOMAIN parts |-> subs[parts[k]].f[ft][r]])]]]
      [] t = "UnscheduledOperationsObserver" ->
            [o EXCEPT !.dq = [o.dq EXCEPT ![e[1]] = IF @ = <<>> THEN @ ELSE Tail(@)],
                      !.n = NumOps(I) - NumScheduled(s.sched)]
      [] t \in {"HistoryObserver", "HistSub"} -> [o EXCEPT !.hist = Append(@, e)]
      [] t = "MakespanReward" ->
            LET cur == Max2(o.cur, e[4] + Dur(I, <<e[1], e[2]>>))
            IN [o EXCEPT !.cur = cur, !.rewards = Append(@, o.cur - cur)]
      [] t = "IdleTimeReward" ->
            LET q == s.sched[e[3]]        \* already contains the new entry
                idle == IF Len(q) >= 2 THEN e[4] - EEnd(I, q[Len(q) - 1]) ELSE e[4]
            IN [o EXCEPT !.rewards = Append(@, 0 - idle)]
      [] OTHER -> o

RECURSIVE NotifyFrom(_, _, _, _, _, _)
NotifyFrom(I, s, F, subs, i, e) ==
    IF i > Len(subs) THEN subs
    ELSE NotifyFrom(I, s, F, [subs EXCEPT ![i] = ObsUpdate(I, s, F, subs, i, e)], i + 1, e)
NotifyAll(I, s, F, subs, e) == NotifyFrom(I, s, F, subs, 1, e)

(* (1d) reset(): the dispatcher is already reset (s = InitState); observer i  *)
(* resets after the observers before it.  ResetMode = "deps_first": an        *)
(* observer that reads another one resets that one first (the repaired code); *)
(* "naive": it reads whatever the other one holds at that moment.             *)
ObsResetWith(I, s, F, subs, i, mode) ==
    LET o == subs[i]  t == o.t
        unschedFresh(x) == [x EXCEPT !.dq = DequesFor(I, s), !.n = NumOps(I) - NumScheduled(s.sched)]
        remainingFresh(x, L) ==
            LET d == RemainingDepIdx(L)
                dq == IF mode = "deps_first" THEN DequesFor(I, s) ELSE L[d].dq
            IN [x EXCEPT !.f = [ft \in DOMAIN x.f |-> RemainingFrom(I, dq, ft)]]
    IN
    CASE t = "IsReadyObserver" -> [o EXCEPT !.f = [ft \in DOMAIN o.f |-> IsReadyFeat(I, s, F, ft)]]
      [] t = "EarliestStartTimeObserver" ->
            LET E == IF mode = "deps_first" THEN EstInit(I) ELSE o.est
            IN [o EXCEPT !.est = E, !.f = [ft \in DOMAIN o.f |-> EstFeat(I, s, F, E, ft, Zeros(I, ft))]]
      [] t = "DurationObserver" -> [o EXCEPT !.f = [ft \in DOMAIN o.f |-> DurationInit(I, ft)]]
      [] t = "IsScheduledObserver" -> [o EXCEPT !.f = ZeroF(I, DOMAIN o.f)]
      [] t = "PositionInJobObserver" -> [o EXCEPT !.f = [ft \in DOMAIN o.f |-> PositionInit(I, s)]]
      [] t = "RemainingOperationsObserver" -> remainingFresh(o, subs)
      [] t = "IsCompletedObserver" ->
            LET d == CompletedDepIdx(subs, o)
                dep == IF mode = "deps_first" THEN remainingFresh(subs[d], subs) ELSE subs[d]
            IN [o EXCEPT !.f = ZeroF(I, DOMAIN o.f),
                         !.rm = IF Has(o, MACH) THEN [m \in DOMAIN dep.f[MACH] |-> dep.f[MACH][m][1]] ELSE o.rm,
                         !.rj = IF Has(o, JOBS) THEN [j \in DOMAIN dep.f[JOBS] |-> dep.f[JOBS][j][1]] ELSE o.rj]
      [] t = "CompositeFeatureObserver" ->
            [o EXCEPT !.f = [ft \in DOMAIN o.f |->
                LET parts == SelectSeq(o.comps, LAMBDA c : c # 0 /\ ft \in DOMAIN subs[c].f)
                    n == Len(o.f[ft])
                IN [r \in 1..n |-> Concat([k \in DOMAIN parts |-> subs[parts[k]].f[ft][r]])]]]
      [] t = "UnscheduledOperationsObserver" -> unschedFresh(o)
      [] t \in {"HistoryObserver", "HistSub"} -> [o EXCEPT !.hist = <<>>]
      [] t = "MakespanReward" -> [o EXCEPT !.rewards = <<>>, !.cur = Makespan(I, s.sched)]
      [] t = "IdleTimeReward" -> [o EXCEPT !.rewards = <<>>]
      [] OTHER -> o
RECURSIVE ResetFrom(_, _, _, _, _, _)
ResetFrom(I, s, F, subs, i, mode) ==
    IF i > Len(subs) THEN subs
    ELSE LET o1 == ObsResetWith(I, s, F, subs, i, mode)
             \* with "deps_first" the dependencies an observer resets are reset in place too
             L1 == [subs EXCEPT ![i] = o1]
             L2 == IF mode = "deps_first" /\ o1.t = "RemainingOperationsObserver" /\ RemainingDepIdx(L1) # 0
                   THEN [L1 EXCEPT ![RemainingDepIdx(L1)] = ObsResetWith(I, s, F, L1, RemainingDepIdx(L1), mode)]
                   ELSE IF mode = "deps_first" /\ o1.t = "IsCompletedObserver" /\ CompletedDepIdx(L1, o1) # 0
                   THEN LET d == CompletedDepIdx(L1, o1)
                            L3 == [L1 EXCEPT ![d] = ObsResetWith(I, s, F, L1, d, mode)]
                        IN IF RemainingDepIdx(L3) # 0
                           THEN [L3 EXCEPT ![RemainingDepIdx(L3)] = ObsResetWith(I, s, F, L3, RemainingDepIdx(L3), mode)]
                           ELSE L3
                   ELSE L1
         IN ResetFrom(I, s, F, L2, i + 1, mode)
ResetAll(I, s, F, subs, mode) == ResetFrom(I, s, F, subs, 1, mode)

-----------------------------------------------------------------------------
(* (2) DEFINITIONS (C11): what each feature means, from instance + schedule *)
UnschedOf(I, s) == {o \in AllOps(I) : o[2] >= s.nxt[o[1]]}
JobHasUnsched(I, s, j) == s.nxt[j] <= Len(I[j])
MachHasUnsched(I, s, m) == \E o \in UnschedOf(I, s) : m \in MSet(I, o)
EntryOf(s, o) == CHOOSE x \in AllE(s.sched) : EOp(x) = o
(* earliest possible start: forward pass along the job over machine availability *)
RECURSIVE EstTrue(_, _, _)
EstTrue(I, s, o) ==
    LET j == o[1]  p == o[2]  mfreeMin == MinOf({s.mfree[m] : m \in MSet(I, o)})
    IN IF p = s.nxt[j] THEN Max2(s.jfree[j], mfreeMin)
       ELSE Max2(EstTrue(I, s, <<j, p - 1>>) + Dur(I, <<j, p - 1>>), mfreeMin)

(* set of <<feature type, entity index, expected value>> the documentation fixes  *)
(* for observer class t (only entities with work left; see DESIGN.md, C11)       *)
FeatTrue(I, s, F, t, ft) ==
    LET now == Now(I, s, F)
        U == UnschedOf(I, s)
        G == OngoingOps(I, s, F)
        opIdx(o) == OpId(I, o)
        nonflex == ~IsFlexible(I)
    IN
    CASE t = "IsReadyObserver" /\ ft = OPS  -> {<<opIdx(o), B(o \in Rng(Avail(I, s, F))), IF o \in G THEN "g" ELSE "u">> : o \in U \cup G}
      [] t = "IsReadyObserver" /\ ft = JOBS -> {<<j, B(j \in AvailJobs(I, s, F)), "u">> : j \in {x \in Jobs(I) : JobHasUnsched(I, s, x)}}
      [] t = "IsReadyObserver" /\ ft = MACH -> {<<m, B(m \in AvailMachines(I, s, F)), "u">> : m \in {x \in Machines(I) : MachHasUnsched(I, s, x)}}
      [] t = "EarliestStartTimeObserver" /\ ft = OPS  -> {<<opIdx(o), EstTrue(I, s, o) - now, "u">> : o \in U}
      [] t = "EarliestStartTimeObserver" /\ ft = JOBS ->
            {<<j, EstTrue(I, s, <<j, s.nxt[j]>>) - now, "u">> : j \in {x \in Jobs(I) : JobHasUnsched(I, s, x)}}
      [] t = "EarliestStartTimeObserver" /\ ft = MACH ->
            {<<m, MinOf({EstTrue(I, s, o) : o \in {x \in U : m \in MSet(I, x)}}) - now, "u">> :
                 m \in {x \in Machines(I) : MachHasUnsched(I, s, x)}}
      [] t = "DurationObserver" /\ ft = OPS ->
            {<<opIdx(o), Dur(I, o), "u">> : o \in U}
            \cup {<<opIdx(o), LET x == EntryOf(s, o) IN EEnd(I, x) - Max2(x[3], now), "g">> : o \in G}
      [] t = "DurationObserver" /\ ft = JOBS ->
            {<<j, SumSeq([k \in 1..(Len(I[j]) + 1 - s.nxt[j]) |-> I[j][s.nxt[j] + k - 1].d]), "u">> :
                 j \in {x \in Jobs(I) : JobHasUnsched(I, s, x)}}
      [] t = "DurationObserver" /\ ft = MACH ->
            IF ~nonflex THEN {} ELSE
            {<<m, LET L == SelectSeq(OpsByMachine(I, m), LAMBDA o : o \in U)
                  IN SumSeq([k \in DOMAIN L |-> Dur(I, L[k])]), "u">> : m \in {x \in Machines(I) : MachHasUnsched(I, s, x)}}
      [] t = "IsScheduledObserver" /\ ft = OPS -> {<<opIdx(o), B(o \in G), IF o \in G THEN "g" ELSE "u">> : o \in U \cup G}
      [] t = "IsScheduledObserver" /\ ft = JOBS ->
            {<<j, Cardinality({x \in OngoingE(I, s, F) : x[1] = j}), "u">> : j \in Jobs(I)}
      [] t = "IsScheduledObserver" /\ ft = MACH ->
            {<<m, Cardinality({x \in OngoingE(I, s, F) : x \in Rng(s.sched[m])}), "u">> : m \in Machines(I)}
      [] t = "PositionInJobObserver" /\ ft = OPS ->
            {<<opIdx(o), o[2] - s.nxt[o[1]], "u">> : o \in U} \cup {<<opIdx(o), 0, "g">> : o \in G}
      [] t = "RemainingOperationsObserver" /\ ft = JOBS ->
            {<<j, Len(I[j]) + 1 - s.nxt[j], "u">> : j \in {x \in Jobs(I) : JobHasUnsched(I, s, x)}}
      [] t = "RemainingOperationsObserver" /\ ft = MACH ->
            IF ~nonflex THEN {} ELSE
            {<<m, Cardinality({o \in U : m \in MSet(I, o)}), "u">> : m \in {x \in Machines(I) : MachHasUnsched(I, s, x)}}
      [] t = "IsCompletedObserver" /\ ft = OPS -> {<<opIdx(o), 0, IF o \in G THEN "g" ELSE "u">> : o \in U \cup G}
      [] t = "IsCompletedObserver" /\ ft = JOBS -> {<<j, 0, "u">> : j \in {x \in Jobs(I) : JobHasUnsched(I, s, x)}}
      [] t = "IsCompletedObserver" /\ ft = MACH ->
            IF ~nonflex THEN {} ELSE {<<m, 0, "u">> : m \in {x \in Machines(I) : MachHasUnsched(I, s, x)}}
      [] OTHER -> {}

(* the statement's carve-out: with a filter installed, only positive durations *)
FeatScope(I, F) == F = <<>> \/ PositiveDurations(I)

(* deviations of a logged/modelled observer from the definition:              *)
(* set of <<feature type, "over" | "under", "u" | "g", entity>> ("g": ongoing) *)
FeatDeviations(I, s, F, o) ==
    IF ~FeatScope(I, F) THEN {}
    ELSE UNION { { <<ft, IF o.f[ft][x[1]][1] > x[2] THEN "over" ELSE "under", x[3], x[1]>> :
                     x \in {y \in FeatTrue(I, s, F, o.t, ft) : o.f[ft][y[1]][1] # y[2]} }
                 : ft \in DOMAIN o.f }

(* column names a component contributes: its class name without "Observer"; a component with several
   columns (a nested composite) contributes name_0 .. name_{w-1} *)
ColNames(c, ft) ==
    LET w == IF c.f[ft] = <<>> THEN 1 ELSE Len(c.f[ft][1])
    IN IF w > 1 THEN [i \in 1..w |-> c.name \o "_" \o ToString(i - 1)] ELSE <<c.name>>
(* C11: composite = column-wise concatenation of its components, in order *)
CompositeOK(subs, o) ==
    \A ft \in DOMAIN o.f :
        LET parts == SelectSeq(o.comps, LAMBDA c : c # 0 /\ ft \in DOMAIN subs[c].f)
        IN /\ \A r \in DOMAIN o.f[ft] : o.f[ft][r] = Concat([k \in DOMAIN parts |-> subs[parts[k]].f[ft][r]])
           /\ o.cols[ft] = Concat([k \in DOMAIN parts |-> ColNames(subs[parts[k]], ft)])

(* C13 *)
RewardsOK(I, s, o, ndisp) ==
    CASE o.t = "MakespanReward" ->
            /\ Len(o.rewards) = ndisp
            /\ \A k \in DOMAIN o.rewards : o.rewards[k] <= 0
            /\ SumSeq(o.rewards) = 0 - MakespanDef(I, s.sched)
      [] o.t = "IdleTimeReward" ->
            /\ Len(o.rewards) = ndisp
            /\ \A k \in DOMAIN o.rewards : o.rewards[k] <= 0
            /\ SumSeq(o.rewards) =
                 0 - SumSeq([m \in DOMAIN s.sched |->
                        LastEnd(I, s.sched, m) - SumSeq([k \in DOMAIN s.sched[m] |-> Dur(I, EOp(s.sched[m][k]))])])
      [] OTHER -> TRUE
=============================================================================
