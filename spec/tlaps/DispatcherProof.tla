-------------------------- MODULE DispatcherProof --------------------------
(***************************************************************************)
(* The dispatch step for ARBITRARY finite sets of jobs and machines, any   *)
(* job lengths, any natural durations and any eligible-machine sets, with  *)
(* a machine-checked (TLAPS) proof that the feasibility clauses of C01 and *)
(* the bookkeeping clauses of C02 are an inductive invariant.  This lifts  *)
(* both the duration bound of the TLC families and the 3x3x3 shape bound   *)
(* of the Apalache run (spec/apalache/DispatcherInd.tla).                  *)
(***************************************************************************)
EXTENDS Integers, TLAPS

CONSTANTS J, M, len, dur, elig
Pos == Nat \ {0}
ASSUME ConstAssump ==
    /\ len \in [J -> Pos]
    /\ dur \in [J -> [Pos -> Nat]]
    /\ elig \in [J -> [Pos -> SUBSET M]]

VARIABLES nxt, st, mc, jfree, mfree
vars == <<nxt, st, mc, jfree, mfree>>

Max2(a, b) == IF a >= b THEN a ELSE b
End(j, p) == st[j][p] + dur[j][p]
Sched(j, p) == p \in Pos /\ p < nxt[j]

Init ==
    /\ nxt = [j \in J |-> 1]
    /\ st = [j \in J |-> [p \in Pos |-> 0]]
    /\ mc \in [J -> [Pos -> M]]
    /\ jfree = [j \in J |-> 0]
    /\ mfree = [m \in M |-> 0]

Dispatch(j, m) ==
    /\ nxt[j] <= len[j]
    /\ m \in elig[j][nxt[j]]
    /\ st' = [st EXCEPT ![j][nxt[j]] = Max2(mfree[m], jfree[j])]
    /\ mc' = [mc EXCEPT ![j][nxt[j]] = m]
    /\ nxt' = [nxt EXCEPT ![j] = nxt[j] + 1]
    /\ jfree' = [jfree EXCEPT ![j] = Max2(mfree[m], jfree[j]) + dur[j][nxt[j]]]
    /\ mfree' = [mfree EXCEPT ![m] = Max2(mfree[m], jfree[j]) + dur[j][nxt[j]]]

Next == \E j \in J : \E m \in M : Dispatch(j, m)
Spec == Init /\ [][Next]_vars

TypeOK ==
    /\ nxt \in [J -> Pos]
    /\ st \in [J -> [Pos -> Int]]
    /\ mc \in [J -> [Pos -> M]]
    /\ jfree \in [J -> Int]
    /\ mfree \in [M -> Int]

(* C01 *)
InRange == \A j \in J : nxt[j] <= len[j] + 1
NonNeg == \A j \in J : \A p \in Pos : Sched(j, p) => st[j][p] >= 0
Eligible == \A j \in J : \A p \in Pos : Sched(j, p) => mc[j][p] \in elig[j][p]
JobOrder == \A j \in J : \A p \in Pos : (Sched(j, p) /\ p > 1) => End(j, p - 1) <= st[j][p]
NoOverlap == \A j1 \in J : \A p1 \in Pos : \A j2 \in J : \A p2 \in Pos :
                (Sched(j1, p1) /\ Sched(j2, p2) /\ (j1 # j2 \/ p1 # p2) /\ mc[j1][p1] = mc[j2][p2])
                => (End(j1, p1) <= st[j2][p2] \/ End(j2, p2) <= st[j1][p1])
(* C02 *)
JFreeOK == \A j \in J : jfree[j] = IF nxt[j] = 1 THEN 0 ELSE End(j, nxt[j] - 1)
MFreeBound == \A m \in M : mfree[m] >= 0
                /\ \A j \in J : \A p \in Pos : (Sched(j, p) /\ mc[j][p] = m) => End(j, p) <= mfree[m]

(* the same notions one step later, written with explicit primes *)
SchedP(j, p) == p \in Pos /\ p < nxt'[j]
EndP(j, p) == st'[j][p] + dur[j][p]

IndInv == TypeOK /\ InRange /\ NonNeg /\ Eligible /\ JobOrder /\ NoOverlap /\ JFreeOK /\ MFreeBound

LEMMA InitInv == Init => IndInv
  BY ConstAssump DEF Init, IndInv, TypeOK, InRange, NonNeg, Eligible, JobOrder, NoOverlap, JFreeOK, MFreeBound,
     Sched, End, Pos

LEMMA StepInv == IndInv /\ [Next]_vars => IndInv'
<1> SUFFICES ASSUME IndInv, [Next]_vars PROVE IndInv'
  OBVIOUS
<1> USE ConstAssump
<1>1. CASE UNCHANGED vars
  BY <1>1 DEF vars, IndInv, TypeOK, InRange, NonNeg, Eligible, JobOrder, NoOverlap, JFreeOK, MFreeBound, Sched, End
<1>2. CASE Next
  <2> PICK j \in J, m \in M : Dispatch(j, m)
    BY <1>2 DEF Next
  <2> DEFINE p0 == nxt[j]
  <2> DEFINE s0 == Max2(mfree[m], jfree[j])
  <2> DEFINE e0 == s0 + dur[j][p0]
  <2>0. /\ p0 \in Pos /\ p0 <= len[j] /\ m \in elig[j][p0]
        /\ s0 \in Int /\ s0 >= mfree[m] /\ s0 >= jfree[j] /\ dur[j][p0] \in Nat /\ e0 \in Int /\ e0 >= s0
        /\ mfree[m] >= 0 /\ s0 >= 0
    BY DEF IndInv, TypeOK, Dispatch, Max2, MFreeBound, Pos
  <2>1. /\ st' = [st EXCEPT ![j][p0] = s0]
        /\ mc' = [mc EXCEPT ![j][p0] = m]
        /\ nxt' = [nxt EXCEPT ![j] = p0 + 1]
        /\ jfree' = [jfree EXCEPT ![j] = e0]
        /\ mfree' = [mfree EXCEPT ![m] = e0]
    BY DEF Dispatch
  <2> HIDE DEF s0, e0
  <2>2. TypeOK'
    BY <2>0, <2>1 DEF IndInv, TypeOK, Pos
  <2>3a. \A jj \in J : nxt'[jj] = IF jj = j THEN p0 + 1 ELSE nxt[jj]
    BY <2>1 DEF IndInv, TypeOK
  <2>3b. \A jj \in J : nxt[jj] \in Nat /\ nxt[jj] >= 1
    BY DEF IndInv, TypeOK, Pos
  <2>3. \A jj \in J : \A pp \in Pos : SchedP(jj, pp) <=> (Sched(jj, pp) \/ (jj = j /\ pp = p0))
    <3> SUFFICES ASSUME NEW jj \in J, NEW pp \in Pos
                 PROVE SchedP(jj, pp) <=> (Sched(jj, pp) \/ (jj = j /\ pp = p0))
      OBVIOUS
    <3>1. pp \in Nat /\ pp >= 1
      BY DEF Pos
    <3>2. SchedP(jj, pp) <=> pp < nxt'[jj]
      BY DEF SchedP
    <3>3. Sched(jj, pp) <=> pp < nxt[jj]
      BY DEF Sched
    <3>4. CASE jj = j
      BY <3>1, <3>2, <3>3, <3>4, <2>3a, <2>3b
    <3>5. CASE jj # j
      BY <3>2, <3>3, <3>5, <2>3a
    <3> QED
      BY <3>4, <3>5
  <2>4. \A jj \in J : \A pp \in Pos : st'[jj][pp] = IF jj = j /\ pp = p0 THEN s0 ELSE st[jj][pp]
    BY <2>0, <2>1 DEF IndInv, TypeOK, Pos
  <2>5. \A jj \in J : \A pp \in Pos : mc'[jj][pp] = IF jj = j /\ pp = p0 THEN m ELSE mc[jj][pp]
    BY <2>0, <2>1 DEF IndInv, TypeOK, Pos
  <2>6. \A jj \in J : \A pp \in Pos : EndP(jj, pp) = IF jj = j /\ pp = p0 THEN e0 ELSE End(jj, pp)
    BY <2>4 DEF End, EndP, e0
  <2>7. InRange'
    BY <2>0, <2>1 DEF IndInv, TypeOK, InRange, Pos
  <2>8. NonNeg'
    <3>1. \A jj \in J : \A pp \in Pos : SchedP(jj, pp) => st'[jj][pp] >= 0
      BY <2>0, <2>3, <2>4 DEF IndInv, NonNeg
    <3> QED
      BY <3>1 DEF NonNeg, Sched, SchedP
  <2>9. Eligible'
    <3>1. \A jj \in J : \A pp \in Pos : SchedP(jj, pp) => mc'[jj][pp] \in elig[jj][pp]
      BY <2>0, <2>3, <2>5 DEF IndInv, Eligible
    <3> QED
      BY <3>1 DEF Eligible, Sched, SchedP
  <2>10. JFreeOK'
    <3>0. \A jj \in J : jfree'[jj] = IF nxt'[jj] = 1 THEN 0 ELSE EndP(jj, nxt'[jj] - 1)
      <4> TAKE jj \in J
      <4>1. CASE jj = j
        <5>1. nxt'[jj] = p0 + 1 /\ p0 + 1 # 1 /\ (p0 + 1) - 1 = p0
          BY <4>1, <2>3a, <2>3b
        <5>2. jfree'[jj] = e0
          BY <4>1, <2>1 DEF IndInv, TypeOK
        <5>3. EndP(jj, p0) = e0
          BY <4>1, <2>0, <2>6
        <5> QED
          BY <5>1, <5>2, <5>3
      <4>2. CASE jj # j
        <5>1. nxt'[jj] = nxt[jj] /\ jfree'[jj] = jfree[jj]
          BY <4>2, <2>3a, <2>1 DEF IndInv, TypeOK
        <5>2. jfree[jj] = IF nxt[jj] = 1 THEN 0 ELSE End(jj, nxt[jj] - 1)
          BY DEF IndInv, JFreeOK
        <5>3. CASE nxt[jj] = 1
          BY <5>1, <5>2, <5>3
        <5>4. CASE nxt[jj] # 1
          <6>1. nxt[jj] - 1 \in Pos
            BY <5>4, <2>3b DEF Pos
          <6>2. EndP(jj, nxt[jj] - 1) = End(jj, nxt[jj] - 1)
            BY <6>1, <4>2, <2>6
          <6> QED
            BY <5>1, <5>2, <5>4, <6>2
        <5> QED
          BY <5>3, <5>4
      <4> QED
        BY <4>1, <4>2
    <3> QED
      BY <3>0 DEF JFreeOK, End, EndP
  <2>11a. \A mm \in M : mfree'[mm] = IF mm = m THEN e0 ELSE mfree[mm]
    BY <2>1 DEF IndInv, TypeOK
  <2>11b. \A mm \in M : mfree[mm] \in Int /\ mfree[mm] >= 0
              /\ \A jj \in J : \A pp \in Pos : (Sched(jj, pp) /\ mc[jj][pp] = mm) => End(jj, pp) <= mfree[mm]
    BY DEF IndInv, TypeOK, MFreeBound
  <2>11c. \A jj \in J : \A pp \in Pos : End(jj, pp) \in Int /\ st[jj][pp] \in Int
    BY DEF IndInv, TypeOK, End, Pos
  <2>11. MFreeBound'
    <3>0. \A mm \in M : /\ mfree'[mm] >= 0
                         /\ \A jj \in J : \A pp \in Pos : (SchedP(jj, pp) /\ mc'[jj][pp] = mm) => EndP(jj, pp) <= mfree'[mm]
      <4> TAKE mm \in M
      <4>1. mfree'[mm] >= 0
        BY <2>0, <2>11a, <2>11b
      <4>2. \A jj \in J : \A pp \in Pos : (SchedP(jj, pp) /\ mc'[jj][pp] = mm) => EndP(jj, pp) <= mfree'[mm]
        <5> SUFFICES ASSUME NEW jj \in J, NEW pp \in Pos, SchedP(jj, pp), mc'[jj][pp] = mm
                     PROVE EndP(jj, pp) <= mfree'[mm]
          OBVIOUS
        <5>1. CASE jj = j /\ pp = p0
          BY <5>1, <2>5, <2>6, <2>11a, <2>0
        <5>2. CASE ~(jj = j /\ pp = p0)
          <6>1. Sched(jj, pp) /\ mc[jj][pp] = mm /\ EndP(jj, pp) = End(jj, pp)
            BY <5>2, <2>3, <2>5, <2>6
          <6>2. End(jj, pp) <= mfree[mm]
            BY <6>1, <2>11b
          <6> QED
            BY <6>1, <6>2, <2>11a, <2>11b, <2>11c, <2>0
        <5> QED
          BY <5>1, <5>2
      <4> QED
        BY <4>1, <4>2
    <3> QED
      BY <3>0 DEF MFreeBound, Sched, SchedP, End, EndP
  <2>12. JobOrder'
    <3>0. \A jj \in J : \A pp \in Pos : (SchedP(jj, pp) /\ pp > 1) => EndP(jj, pp - 1) <= st'[jj][pp]
      <4> SUFFICES ASSUME NEW jj \in J, NEW pp \in Pos, SchedP(jj, pp), pp > 1
                   PROVE EndP(jj, pp - 1) <= st'[jj][pp]
        OBVIOUS
      <4>0. pp - 1 \in Pos /\ pp \in Nat
        BY DEF Pos
      <4>1. CASE jj = j /\ pp = p0
        <5>1. st'[jj][pp] = s0
          BY <4>1, <2>4
        <5>2. EndP(jj, pp - 1) = End(jj, pp - 1)
          BY <4>0, <4>1, <2>6, <2>3b
        <5>3. jfree[j] = End(j, p0 - 1)
          BY <4>1, <2>3b DEF IndInv, JFreeOK
        <5> QED
          BY <4>1, <5>1, <5>2, <5>3, <2>0, <2>11c, <4>0
      <4>2. CASE ~(jj = j /\ pp = p0)
        <5>1. Sched(jj, pp) /\ st'[jj][pp] = st[jj][pp]
          BY <4>2, <2>3, <2>4
        <5>2. ~(jj = j /\ pp - 1 = p0)
          BY <5>1, <2>3b, <4>0 DEF Sched
        <5>3. EndP(jj, pp - 1) = End(jj, pp - 1)
          BY <5>2, <4>0, <2>6
        <5>4. End(jj, pp - 1) <= st[jj][pp]
          BY <5>1 DEF IndInv, JobOrder
        <5> QED
          BY <5>1, <5>3, <5>4
      <4> QED
        BY <4>1, <4>2
    <3> QED
      BY <3>0 DEF JobOrder, Sched, SchedP, End, EndP
  <2>13. NoOverlap'
    <3>0. \A j1 \in J : \A p1 \in Pos : \A j2 \in J : \A p2 \in Pos :
            (SchedP(j1, p1) /\ SchedP(j2, p2) /\ (j1 # j2 \/ p1 # p2) /\ mc'[j1][p1] = mc'[j2][p2])
            => (EndP(j1, p1) <= st'[j2][p2] \/ EndP(j2, p2) <= st'[j1][p1])
      <4> SUFFICES ASSUME NEW j1 \in J, NEW p1 \in Pos, NEW j2 \in J, NEW p2 \in Pos,
                          SchedP(j1, p1), SchedP(j2, p2), (j1 # j2 \/ p1 # p2), mc'[j1][p1] = mc'[j2][p2]
                   PROVE EndP(j1, p1) <= st'[j2][p2] \/ EndP(j2, p2) <= st'[j1][p1]
        OBVIOUS
      <4>1. CASE j1 = j /\ p1 = p0
        <5>1. ~(j2 = j /\ p2 = p0)
          BY <4>1
        <5>2. Sched(j2, p2) /\ mc[j2][p2] = m /\ EndP(j2, p2) = End(j2, p2) /\ st'[j1][p1] = s0
          BY <4>1, <5>1, <2>3, <2>4, <2>5, <2>6
        <5>3. End(j2, p2) <= mfree[m]
          BY <5>2, <2>11b
        <5> QED
          BY <5>2, <5>3, <2>0, <2>11b, <2>11c
      <4>2. CASE j2 = j /\ p2 = p0
        <5>1. ~(j1 = j /\ p1 = p0)
          BY <4>2
        <5>2. Sched(j1, p1) /\ mc[j1][p1] = m /\ EndP(j1, p1) = End(j1, p1) /\ st'[j2][p2] = s0
          BY <4>2, <5>1, <2>3, <2>4, <2>5, <2>6
        <5>3. End(j1, p1) <= mfree[m]
          BY <5>2, <2>11b
        <5> QED
          BY <5>2, <5>3, <2>0, <2>11b, <2>11c
      <4>3. CASE ~(j1 = j /\ p1 = p0) /\ ~(j2 = j /\ p2 = p0)
        <5>1. Sched(j1, p1) /\ Sched(j2, p2) /\ mc[j1][p1] = mc[j2][p2]
          BY <4>3, <2>3, <2>5
        <5>2. EndP(j1, p1) = End(j1, p1) /\ EndP(j2, p2) = End(j2, p2) /\ st'[j1][p1] = st[j1][p1] /\ st'[j2][p2] = st[j2][p2]
          BY <4>3, <2>4, <2>6
        <5>3. End(j1, p1) <= st[j2][p2] \/ End(j2, p2) <= st[j1][p1]
          BY <5>1 DEF IndInv, NoOverlap
        <5> QED
          BY <5>2, <5>3
      <4> QED
        BY <4>1, <4>2, <4>3
    <3> QED
      BY <3>0 DEF NoOverlap, Sched, SchedP, End, EndP
  <2> QED
    BY <2>2, <2>7, <2>8, <2>9, <2>10, <2>11, <2>12, <2>13 DEF IndInv
<1> QED
  BY <1>1, <1>2

THEOREM Safety == Spec => []IndInv
<1>1. Init => IndInv
  BY InitInv
<1>2. IndInv /\ [Next]_vars => IndInv'
  BY StepInv
<1> QED
  BY <1>1, <1>2, PTL DEF Spec
=============================================================================
