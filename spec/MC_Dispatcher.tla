--------------------------- MODULE MC_Dispatcher ---------------------------
EXTENDS Dispatcher, Families

(* C07: in every reachable state, for every non-empty sub-list of the ready  *)
(* operations and every composition of up to two (three) filters: a          *)
(* non-empty duplicate-free sub-list comes back                              *)
FilterSound(FS) ==
    \A F \in FS : \A L \in SubListsOf(RawReady(inst, State)) :
        L # <<>> => LET R == ApplyFilters(inst, State, F, L)
                    IN R # <<>> /\ IsSubSeqOf(R, L) /\ NoDup(R)
Inv_FilterSound2 == Started =>
   (
 FilterSound(FiltSingles \cup FiltPairs)
   )
Inv_FilterSound3 == Started =>
   (
 FilterSound(FiltSingles \cup FiltPairs \cup FiltTriples)
   )
(* idempotence and insensitivity facts the documentation implies            *)
Inv_FilterIdempotent == Started =>
   (

    \A f \in AllFilters : LET R == ApplyFilter(inst, State, f, RawReady(inst, State))
                          IN ApplyFilter(inst, State, f, R) = R \/ (f = "dom" /\ ~PositiveDurations(inst))
   )
Kinds3 == <<"rec", "hist", "histsub">>
Kinds2 == <<"rec", "hist">>
NoKinds == <<>>
(* bound on rejected requests / resets / queries per behaviour in the        *)
(* history-dependent models                                                  *)
Bounded(n) == TLCGet("level") <= n
C12 == Bounded(12)
C14 == Bounded(14)
=============================================================================
