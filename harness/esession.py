"""Recording executions of the two Gymnasium environments (C18, and the
environment halves of C09 C12 C13)."""
from __future__ import annotations

import numpy as np

from . import model, obsproj
from .dsession import DSession, _outcome, build_graph

FEATURE_CLASSES = ["IsReadyObserver", "EarliestStartTimeObserver", "DurationObserver", "IsScheduledObserver",
                   "PositionInJobObserver", "RemainingOperationsObserver", "IsCompletedObserver"]


def _feature_configs(feats):
    from job_shop_lib.dispatching import DispatcherObserverConfig
    from job_shop_lib.dispatching import feature_observers as FO
    out = []
    for (t, fts) in feats:
        kw = {"feature_types": [FO.FeatureType(x) for x in fts]} if fts else {}
        out.append(DispatcherObserverConfig(getattr(FO, t), kwargs=kw))
    return out


def _reward_config(name):
    from job_shop_lib.dispatching import DispatcherObserverConfig
    from job_shop_lib import reinforcement_learning as RL
    return DispatcherObserverConfig(class_type=getattr(RL, name))


def _updater_config(rm_m, rm_j):
    from job_shop_lib.dispatching import DispatcherObserverConfig
    from job_shop_lib.graphs.graph_updaters import ResidualGraphUpdater
    return DispatcherObserverConfig(class_type=ResidualGraphUpdater,
                                    kwargs={"remove_completed_machine_nodes": rm_m,
                                            "remove_completed_job_nodes": rm_j})


def project_env_obs(space, obs):
    out = {"removed_nodes": [int(bool(x)) for x in np.asarray(obs["removed_nodes"]).reshape(-1)],
           "edge_index": [[int(x) + 1 for x in row] for row in np.asarray(obs["edge_index"]).reshape(2, -1)],
           "features": {k: model.arr(v) for k, v in obs.items() if k not in ("removed_nodes", "edge_index")},
           "in_space": bool(space.contains(obs)),
           "shapes": {k: [int(d) for d in np.asarray(v).shape] for k, v in obs.items()}}
    return out


def declared_shapes(space):
    return {k: [int(d) for d in (sp.shape or ())] for k, sp in space.spaces.items()}


def space_contains_table(space, nj, nm):
    """contains((j, m)) as Gymnasium evaluates it, for every job and every
    machine id incl. -1 (column 0)."""
    return [[bool(space.contains(np.array([j, m]))) for m in range(-1, nm)] for j in range(nj)]


class EnvConstructionFailed(Exception):
    """SingleJobShopGraphEnv(...) raised for a configuration the scenarios consider valid (reported, not a crash)."""


class ESession(DSession):
    """One trace = one single-instance environment."""

    def __init__(self, tid, inst, cfg, env=None, instance=None, extra_env_header=None):
        # pylint: disable=super-init-not-called
        from job_shop_lib.reinforcement_learning import SingleJobShopGraphEnv
        self.tid = tid
        self.inst = inst
        self.cfg = dict(cfg)
        self.filt = list(cfg.get("filt", ["dom"]))
        self.kinds = []
        self.pool = {}
        self.extra = []
        self.notes = []
        self.events = []
        self._last_post = None
        self.header = {}
        if env is None:
            self.instance = model.build_instance(inst)
            out, env = _outcome(lambda: SingleJobShopGraphEnv(
                job_shop_graph=build_graph(cfg["builder"], self.instance),
                feature_observer_configs=_feature_configs(cfg["features"]),
                reward_function_config=_reward_config(cfg["reward"]),
                graph_updater_config=_updater_config(cfg["rm_machines"], cfg["rm_jobs"]),
                ready_operations_filter=model.make_filter(self.filt),
                use_padding=cfg["use_padding"],
            ))
            if out != "ok":
                raise EnvConstructionFailed(out)
            self.space_owner = env
        else:
            self.instance = instance
            self.space_owner = cfg["space_owner"]
        self.env = env
        self.fp0 = model.instance_fingerprint(self.instance)
        self.dispatcher = self.single.dispatcher
        self._tag_updater()
        hdr = {
            "nvec": [int(x) for x in self.space_owner.action_space.nvec],
            "start": [int(x) for x in self.space_owner.action_space.start],
            "declared_shapes": declared_shapes(self.space_owner.observation_space),
            "use_padding": bool(cfg["use_padding"]),
            "builder": cfg["builder"],
            "multi": env is not self.single,
        }
        hdr.update(extra_env_header or {})
        self.header["env"] = hdr
        self.header["featcheck"] = True
        self._ev({"a": "Init"})
        self.header["fresh_obs"] = self.post()["obs"]

    @property
    def single(self):
        return getattr(self.env, "single_job_shop_graph_env", self.env)

    def _tag_updater(self):
        self.single.graph_updater._verif_builder = self.cfg["builder"]

    def _eobs(self, obs):
        return project_env_obs(self.space_owner.observation_space, obs)

    def _table(self):
        return space_contains_table(self.space_owner.action_space, self.instance.num_jobs, self.instance.num_machines)

    def env_reset(self):
        out, r = _outcome(self.env.reset)
        if self.single.dispatcher is not self.dispatcher:      # the multi env builds a new one
            self.dispatcher = self.single.dispatcher
        self._ev({"a": "EnvReset", "out": out, "eobs": self._eobs(r[0]) if out == "ok" else {}})
        return out

    def env_step(self, j, m):
        """j 1-based; m 1-based machine id, 0 = the library's -1."""
        table = self._table()
        out, r = _outcome(lambda: self.env.step((j - 1, m - 1)))
        ev = {"a": "EnvStep", "j": j, "m": m, "out": out, "space_contains": table,
              "reward": 0, "done": False, "truncated": False}
        if out == "ok":
            obs, reward, done, truncated, _info = r
            ev.update({"eobs": self._eobs(obs), "reward": model.num(reward), "done": bool(done),
                       "truncated": bool(truncated)})
        else:
            o2, obs = _outcome(self.single.get_observation)
            ev["eobs"] = self._eobs(self._pad(obs)) if o2 == "ok" else {}
        self._ev(ev)
        return out

    def _pad(self, obs):
        if self.env is not self.single and self.env.use_padding:
            return self.env._add_padding_to_observation(obs)  # pylint: disable=protected-access
        return obs

    def env_fresh_run(self, actions):
        """The same decisions on a freshly constructed environment."""
        other = ESession(self.tid, self.inst, self.cfg)
        other.env_reset()
        for (j, m) in actions:
            other.env_step(j, m)
        p = other.post()
        o1, here = _outcome(self.single.get_observation)
        o2, there = _outcome(other.single.get_observation)
        self._ev({"a": "EnvFreshRun", "core": p["core"], "obs": p["obs"],
                  "eobs_here": self._eobs(here) if o1 == "ok" else {},
                  "eobs_fresh": other._eobs(there) if o2 == "ok" else {}})

    def trace(self):
        t = super().trace()
        t["kind"] = "E"
        t["cfg"] = {k: v for k, v in self.cfg.items() if k != "space_owner"}
        return t


def rerun_env_trace(tid, trace):
    s = ESession(tid, trace["inst"], trace["cfg"])
    acts = []
    for ev in trace["events"]:
        a = ev["a"]
        if a == "EnvReset":
            s.env_reset()
            acts = []
        elif a == "EnvStep":
            if s.env_step(ev["j"], ev["m"]) == "ok":
                acts.append((ev["j"], ev["m"]))
        elif a == "EnvFreshRun":
            s.env_fresh_run(acts)
    return s.trace()
