"""Talking to TLC: behaviour generation (spec -> code) and trace
monitoring (code -> spec)."""
from __future__ import annotations

import json
import re
from pathlib import Path

from .common import MachineryError, run_tlc, unescape_tla_string, workdir, seed


def generate(module: str, cfg: str, name: str, *, simulate: str | None = None,
             workers=1, timeout=600, seed_=None, depth=None) -> tuple[list[dict], object]:
    """Run a Gen_* model; return the distinct behaviours it printed."""
    extra = []
    if simulate:
        extra += ["-simulate", simulate]
        if depth:
            extra += ["-depth", str(depth)]
        extra += ["-seed", str(seed() if seed_ is None else seed_)]
    r = run_tlc(module, cfg, name, workers=workers, timeout=timeout, extra=extra, heap="4g")
    if r.rc not in (0,) and not simulate:
        raise MachineryError(f"generator {module}/{cfg} failed rc={r.rc}:\n" + r.out[-2000:])
    if simulate and r.rc not in (0, 124) :
        raise MachineryError(f"generator {module}/{cfg} failed rc={r.rc}:\n" + r.out[-2000:])
    seen, out = set(), []
    for raw in r.printed("H"):
        try:
            js = unescape_tla_string(raw.strip())
        except AssertionError:
            continue
        if js in seen:
            continue
        seen.add(js)
        try:
            out.append(json.loads(js))
        except json.JSONDecodeError:
            continue
    return out, r


CHUNK_BYTES = 30_000_000      # one TLC run per <= 30 MB of trace JSON: a 200 MB batch made the JVM thrash (GC) for 25+ min


class _Agg:
    def __init__(self):
        self.distinct = self.generated = self.rc = 0
        self.out = ""
        self.wall = 0.0


def monitor(module: str, cfg: str, name: str, traces: list[dict], *, workers=16,
            timeout=900, header=None) -> tuple[dict, object]:
    """Validate recorded traces with a Trace_* monitor.  Returns
    {tid: [(event_index, clause, detail), ...]} - one entry per trace.
    Large batches are cut into chunks (the monitor judges each trace on its own, so chunking changes nothing)."""
    for t in traces:
        t.setdefault("owner", "M")
    chunks, cur, size = [], [], 0
    for t in traces:
        n = len(json.dumps(t))
        if cur and size + n > CHUNK_BYTES:
            chunks.append(cur)
            cur, size = [], 0
        cur.append(t)
        size += n
    if cur:
        chunks.append(cur)
    verdicts, agg = {}, _Agg()
    for k, chunk in enumerate(chunks):
        v, r = _monitor_chunk(module, cfg, name if len(chunks) == 1 else f"{name}-part{k + 1}", chunk,
                              workers=workers, timeout=timeout, header=header)
        verdicts.update(v)
        agg.distinct += r.distinct
        agg.generated += r.generated
        agg.wall += r.wall
        agg.out = r.out
    return verdicts, agg


def _monitor_chunk(module, cfg, name, traces, *, workers, timeout, header):
    wd = workdir("mon-" + name)
    doc = {"traces": traces}
    if header:
        doc.update(header)
    f = wd / "traces.json"
    f.write_text(json.dumps(doc))
    r = run_tlc(module, cfg, name + "-tlc", workers=workers, timeout=timeout,
                env={"TRACE_FILE": str(f)}, heap="8g")
    verdicts = {}
    for raw in r.printed("V"):
        try:
            v = json.loads(unescape_tla_string(raw.strip()))
        except (AssertionError, json.JSONDecodeError):
            continue
        verdicts[int(v["tid"])] = [(int(e[0]), e[1], e[2]) for e in v["errs"]]
    want = {t["tid"] for t in traces}
    if set(verdicts) != want or r.rc != 0:
        missing = sorted(want - set(verdicts))[:5]
        raise MachineryError(
            f"monitor {module}: rc={r.rc}, {len(verdicts)}/{len(want)} verdicts, "
            f"missing e.g. {missing}\n" + "\n".join(r.out.splitlines()[-40:]))
    try:
        f.unlink()          # hundreds of MB per run otherwise; failing traces are kept in evidence/replay by the caller
    except OSError:
        pass
    return verdicts, r
