from . import dchecks, rchecks, ochecks, gchecks, echecks, schecks, nchecks, vchecks

CHECKS = {}
REPLAYERS = {}
CHECKS.update(dchecks.CHECKS)
CHECKS.update(rchecks.CHECKS)
CHECKS.update(ochecks.CHECKS)
CHECKS.update(gchecks.CHECKS)
CHECKS.update(echecks.CHECKS)
CHECKS.update(schecks.CHECKS)
CHECKS.update(nchecks.CHECKS)
CHECKS.update(vchecks.CHECKS)
REPLAYERS["E"] = echecks.replay_env
REPLAYERS["G"] = nchecks.replay_gen
