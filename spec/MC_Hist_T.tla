----------------------------- MODULE MC_Hist_T -----------------------------
(* thorough tier of the history-dependent models *)
EXTENDS MC_Dispatcher
Fam == Family({<<2, 1>>, <<1, 1>>, <<1, 1, 1>>}, MSeqs(2), {0, 1, 2})
Filt == FiltNone \cup FiltDefault \cup {<<"immops">>, <<"immmach", "dom">>}
FamTiny == Family({<<2, 1>>}, MSeqs(2), {0, 1}) \cup Family({<<1, 1>>}, MSeqs(2), {0, 1, 2})
Depth8 == TLCGet("level") <= 8
Depth9 == TLCGet("level") <= 9
Depth10 == TLCGet("level") <= 10
=============================================================================
