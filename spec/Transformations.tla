-------------------------- MODULE Transformations --------------------------
(***************************************************************************)
(* Instance transformations (job_shop_lib/generation/_transformations.py)  *)
(* - beyond the 20 listed properties; specified here because they are the  *)
(* remaining producers of instances.  Each predicate relates the input     *)
(* instance I, the parameters and the output instance O.                   *)
(***************************************************************************)
EXTENDS JobShop

(* RemoveMachines(n): operations of the machines not kept are dropped, the kept    *)
(* machines are renumbered in increasing order; nothing else changes.              *)
(* (non-flexible instances; `keep` is whatever set of n machine ids explains O)    *)
RemoveMachinesExplainedBy(I, O, keep) ==
    LET ks == SetAsSeq(keep)                           \* increasing
        newId(m) == CHOOSE i \in DOMAIN ks : ks[i] = m
        keptOps(j) == SelectSeq(I[j], LAMBDA op : op.ms[1] \in keep)
    IN /\ Len(O) = Len(I)
       /\ \A j \in DOMAIN I :
            O[j] = [p \in DOMAIN keptOps(j) |-> [ms |-> <<newId(keptOps(j)[p].ms[1])>>, d |-> keptOps(j)[p].d]]
RemoveMachinesOK(I, O, n) ==
    IF NM(I) <= n THEN O = I
    ELSE \E keep \in SUBSET Machines(I) : Cardinality(keep) = n /\ RemoveMachinesExplainedBy(I, O, keep)

(* AddDurationNoise(lo, hi, level): same shape and machines, every duration within   *)
(* `level` of the original, clamped to [lo, hi]                                       *)
AddNoiseOK(I, O, lo, hi, level) ==
    /\ Len(O) = Len(I)
    /\ \A j \in DOMAIN I : Len(O[j]) = Len(I[j])
    /\ \A o \in AllOps(I) :
         /\ Op(O, o).ms = Op(I, o).ms
         /\ \E noise \in (0 - level)..level : Dur(O, o) = Max2(lo, Min2(hi, Dur(I, o) + noise))

(* RemoveJobs(target): O is I with some jobs deleted (order kept), |O| = min(|I|, target) *)
RemoveJobsOK(I, O, target) ==
    /\ Len(O) = Min2(Len(I), target)
    /\ IsSubSeqOf(O, I)
=============================================================================
