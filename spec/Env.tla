-------------------------------- MODULE Env --------------------------------
(***************************************************************************)
(* The Gymnasium environments (job_shop_lib/reinforcement_learning):       *)
(* declared spaces as data, legal decisions, what an observation must be   *)
(* given the dispatcher, the composite observer and the residual graph.    *)
(***************************************************************************)
EXTENDS Graphs

(* a decision is <<job, machine>> with machine = -1 meaning "the operation's only machine"; *)
(* here jobs/machines are 1-based and -1 is written 0                                           *)
LegalActions(I, s) ==
    UNION {LET o == <<j, s.nxt[j]>> IN
             {<<j, m>> : m \in MSet(I, o)} \cup (IF Len(Op(I, o).ms) = 1 THEN {<<j, 0>>} ELSE {})
           : j \in {x \in Jobs(I) : s.nxt[x] <= Len(I[x])}}
(* MultiDiscrete(nvec, start) in 0-based library terms: start <= a < start + nvec.  *)
(* a 1-based decision <<j, m>> is the library's (j - 1, m - 1)                       *)
InMultiDiscrete(a, nvec, start) ==
    \A k \in 1..2 : start[k] <= a[k] - 1 /\ a[k] - 1 < start[k] + nvec[k]
(* the action space the single-instance environment must declare *)
DeclaredActionSpaceOK(I, nvec, start) == \A j \in Jobs(I) : \A m \in 0..NM(I) : InMultiDiscrete(<<j, m>>, nvec, start)

(* which machine a decision means *)
MachineOfAction(I, s, j, m) ==
    IF j \notin Jobs(I) \/ s.nxt[j] > Len(I[j]) THEN -1
    ELSE IF m = 0 THEN (IF Len(I[j][s.nxt[j]].ms) = 1 THEN I[j][s.nxt[j]].ms[1] ELSE -1)
    ELSE m

(* --- observations ------------------------------------------------------- *)
(* mask: real nodes first (1 = removed), padding (multi env) = 1             *)
MaskOK(mask, N, R) ==
    /\ Len(mask) >= N
    /\ \A n \in 1..N : mask[n] = B(n \in R)
    /\ \A n \in (N + 1)..Len(mask) : mask[n] = 1
(* edge index: 2 rows; the first |E| columns list the graph's edges (1-based ids), *)
(* the rest is padding, written 0 here (library: -1)                                *)
EdgeIndexOK(ei, E) ==
    LET n == Cardinality(E) IN
    /\ Len(ei) = 2 /\ Len(ei[1]) = Len(ei[2]) /\ Len(ei[1]) >= n
    /\ SameBag([k \in 1..n |-> <<ei[1][k], ei[2][k]>>], E)
    /\ \A k \in (n + 1)..Len(ei[1]) : ei[1][k] = 0 /\ ei[2][k] = 0
(* feature matrix: the composite observer's rows first, padding rows of -1 after *)
FeatureMatrixOK(mat, rows) ==
    /\ Len(mat) >= Len(rows)
    /\ \A r \in DOMAIN rows : mat[r] = rows[r]
    /\ \A r \in (Len(rows) + 1)..Len(mat) : \A k \in DOMAIN mat[r] : mat[r][k] = -1
=============================================================================
