"""Regenerates /verif/MANIFEST.json from the registry (so that it is always
valid and in step with the checks that exist)."""
from __future__ import annotations

import json
from pathlib import Path

VERIF = Path(__file__).resolve().parent.parent

ALL = [f"C{i:02d}" for i in range(1, 21)]

CLAIMS = {}   # pid -> dict(level, text, note, technique, design_ref)


def claim(pid, level, text, note, technique, design_ref):
    CLAIMS[pid] = dict(level=level, text=text, note=note, technique=technique, design_ref=design_ref)


T_D = ("TLC model checking of the TLA+ Dispatcher specification over instance families + "
       "TLC-generated behaviours replayed on the real code + TLA+ trace monitor (TLC) over recorded executions")
N_D = ("Trusted: TLC, the JSON projection in harness/model.py (a change of representation, no expectations), "
       "Python's exception mechanism. Exhaustive only within the stated family bounds; larger instances are "
       "covered by monitored random executions.")

claim("C01", "model_checking", "Inv_Feasible/Inv_CompleteAfterN hold in every reachable state of the spec over all instances of the bounded family x filter compositions; every recorded dispatch of the real Dispatcher is the specification's step and the logged schedule is feasible. A TLAPS proof (264 obligations) establishes the feasibility/bookkeeping invariant of the dispatch step for arbitrary finite instances; the thorough tier adds an Apalache inductive-invariant run (3x3x3, symbolic durations).", N_D, T_D, "5/C01")
claim("C02", "model_checking", "Tracking vectors = derive(schedule), forced (semi-active) starts and makespan checked by TLC on the spec and on every logged state; recorded histories replayed on fresh and reset dispatchers. Thorough tier adds the Apalache inductive invariant (bookkeeping clauses) for symbolic durations.", N_D, T_D, "5/C02")
claim("C05", "model_checking", "Memoisation cache modelled as a state variable; TLC explores every query order; every real query result in every visited state is compared with the definitional operator - also with the library's own observers subscribed, after dispatching rules were asked, and with arguments passed by keyword.", N_D, T_D, "5/C05")
claim("C06", "model_checking", "One-step-ahead invariants (now' >= now, completed grows, end = makespan, filters keep now) on the spec; same predicates on consecutive logged states and on current_time()/completed_operations() read-outs.", N_D, T_D, "5/C06")
claim("C07", "model_checking", "TLC: compositions of filters on every sub-list of the ready list in every reachable state are non-empty sub-lists; real filters compared as sequences with the specification's criteria in every visited state.", N_D, T_D, "5/C07")
claim("C09", "model_checking", "Reject actions enabled exactly when the request is invalid and stutter; TLC-injected invalid requests (incl. look-alike operations that do not belong to the instance, steps after the end of an episode, machine ids beyond the current instance in the multi environment) replayed on the real code: exception <=> invalid, all projected state unchanged.", N_D, T_D, "5/C09")
claim("C10", "model_checking", "Per-subscriber Notify steps, ghost notification logs, singleton rule; recording observers in the real dispatcher compared note by note; built-in observer twins unsubscribed by identity.", N_D, T_D, "5/C10")
claim("C03", "model_checking", "The oracles (Opt over all dispatch histories, lower bounds) are model-checked on the spec; CP-SAT itself is a black box whose results on TLC-family and random non-flexible instances (fresh / reused solver object / 1 ns limit) are judged by the TLA+ monitor against those oracles.", N_D + " OR-Tools is not modelled.", T_D, "5/C03")
claim("C04", "model_checking", "RuleSolver.tla: the solver loop over the instance family x rules x filters always has a best available operation, one operation per step, direct = observer-based MWKR; the real solver is stepped from TLC-chosen prefixes and every rule / score composition is asked in every visited state and compared with BestUnder / LexBest / ScoreVector.", N_D, T_D, "5/C04")
claim("C08", "model_checking", "OptCheck.tla: TLC exhausts both dispatch trees (all histories vs histories through the dominated-operations filter) for every instance of the family and compares the minima; the real Dispatcher+filter tree is walked and its leaf makespans compared with Opt(instance) by the monitor.", N_D, T_D, "5/C08")
claim("C11", "model_checking", "Observers.tla holds the implementation-shaped observer records next to the definitional FeatTrue; FeatureModel.tla is model-checked per observer class and deviation direction (the two recorded findings are reproduced by TLC as their own invariants); every feature of every real observer after every dispatch is compared with FeatTrue by the monitor, deviations labelled as-modelled/unexplained.", N_D, T_D, "5/C11")
claim("C12", "model_checking", "FeatureModel.tla: Reset then ResetAll in subscription order equals fresh construction for every creation order of the dependent observers (the naive protocol is refuted by TLC as a design mutant); real resets at TLC-chosen points compared with the state logged after construction and with the same calls on fresh objects.", N_D, T_D, "5/C12")
claim("C13", "model_checking", "Reward lists as observer records; sum = -makespan / -idle time and one non-positive reward per dispatch as invariants and as monitor predicates on every logged state.", N_D, T_D, "5/C13")
claim("C16", "model_checking", "Graphs.tla defines node lists and typed edge sets of the five builders and the solved graph; TLC proves acyclicity and longest path = makespan for every dispatcher-built complete schedule of the family; the real builders' graphs are compared node by node and edge by edge, real solved graphs (dispatcher and CP-SAT schedules) judged by TLC's own Acyclic/LongestPath on the logged edges.", N_D, T_D, "5/C16")
claim("C17", "model_checking", "GraphModel.tla: residual removals as a state variable driven by the IsCompleted record, invariants per builder/options incl. second episodes; the real updater's removed mask, node set and edge list after every call judged by the same predicates.", N_D, T_D, "5/C17")
claim("C18", "model_checking", "Env.tla: legal decisions, declared spaces and what an observation must be given dispatcher/composite/residual records; TLC proves legal decisions lie in the declared action space over the family (the [J, M] variant is refuted); real single- and multi-instance environments are driven through episodes with injected invalid decisions and every observation/reward/flag is judged by the monitor.", N_D + " Gymnasium's contains() is trusted for membership.", T_D, "5/C18")
claim("C14", "model_checking", "Rebuild.tla: from_job_sequences as a function, model-checked for every non-flexible instance of the family and every tuple of per-machine permutations (accepted <=> acyclic, result feasible/complete/ordered); views, dict/JSON/Taillard round trips and schedule round trips of real objects compared with the definitions of JobShop.tla by the monitor; instance fingerprint unchanged in every event of every trace.", N_D + " Text encodings only up to abstract content.", T_D, "5/C14")
claim("C15", "exploration", "Pairs of operations / scheduled operations / schedules / instances built independently from TLC-generated instances and histories; the monitor judges a==b against equality of the abstract content, symmetry, reflexivity, !=, hashes, transitivity on triples. A pure relation - the specification only contributes content equality, hence exploration level.", N_D, "TLC-generated instances/histories -> real objects compared pairwise -> TLA+ monitor (content equality)", "5/C15")
claim("C19", "model_checking", "Generator.tla: generator objects over random streams, same seed => prefix-related outputs under every interleaving (TLC; the global-stream design is refuted); GeneratorIter.tla: __iter__/__next__/generate() as a state machine, a pass yields exactly the limit whatever was done before (the rewind-on-stop design is refuted), every call sequence up to the bound enumerated by TLC and replayed on real generators; GeneratorShape.tla: WellShaped(params, instance). TLC-chosen call interleavings executed on real generators over a grid of parameter sets; every generated instance, names, iteration counts and machine coverage judged by the monitor.", N_D + " Shape half: sampled generated instances (exploration of the random stream).", T_D, "5/C19")
claim("C20", "model_checking", "Viz.tla: the frame naming scheme + file-name sort as a function, frame i of n loaded at position i for every n <= 260 (TLC; the plain string sort is refuted at n = 100); real charts read back bar by bar from matplotlib and compared with Bars(schedule) by the monitor; the real GIF/video pipeline (history given, recorded by GanttChartCreator, or recorded by the library while a solver runs) on histories of up to 1001 dispatches, the written file decoded frame by frame: how many operations frame k shows and (GIF) a digest of which ones, against the harness' own dispatch record.", N_D + " matplotlib/imageio are black boxes (outputs judged).", T_D, "5/C20")


def build(registered):
    checks = []
    for pid in ALL:
        if pid not in registered or pid not in CLAIMS:
            continue
        c = CLAIMS[pid]
        checks.append({
            "property_id": pid,
            "quick_cmd": f"./check {pid} --tier quick",
            "thorough_cmd": f"./check {pid} --tier thorough",
            "evidence_file": f"/verif/evidence/{pid}.json",
            "replay_cmd_template": f"./check {pid} --replay {{path}}",
            "engine": "tla-spec",
            "level_claimed": {"category": c["level"], "text": c["text"], "design_ref": "DESIGN.md section " + c["design_ref"]},
            "level_note": c["note"],
            "technique": c["technique"],
        })
    na = [{"property_id": pid,
           "reason": "check not built yet (work in progress in this session; the specification module for it is planned in DESIGN.md section 3.1)"}
          for pid in ALL if pid not in {c["property_id"] for c in checks}]
    return {
        "version": 1,
        "setup_cmd": "./setup.sh",
        "hooks": {
            "guard": "JOB_SHOP_LIB_VERIF",
            "enable": "no source hooks are needed: the public API exposes the abstract state; checks import /repo through the editable install of /venv",
            "baseline_off_cmd": "cd /repo && /venv/bin/python -m pytest -ra -q -p no:cacheprovider --timeout=900 --continue-on-collection-errors",
            "source_commits": [],
            "add_only": True,
        },
        "engines": [{
            "name": "tla-spec",
            "path": "/verif/spec",
            "serves_properties": [c["property_id"] for c in checks],
            "kind_free_text": "explicit TLA+ specification (spec/*.tla) model-checked with TLC; behaviours generated by TLC (Gen_*.tla) are replayed into the real library and recorded executions are validated by TLA+ monitors (Trace_*.tla, Monitor*.tla) evaluated by TLC",
        }, {
            "name": "tlaps-proof",
            "path": "/verif/spec/tlaps",
            "serves_properties": ["C01", "C02", "C19"],
            "kind_free_text": "machine-checked TLAPS proofs: DispatcherProof.tla - Spec => []IndInv (feasibility + bookkeeping) for arbitrary finite job/machine sets, lengths, durations and machine sets (264 obligations); GeneratorIterProof.tla - a pass over a generator yields exactly the limit, for every limit and call sequences of any length (32 obligations)",
        }, {
            "name": "apalache-inductive",
            "path": "/verif/spec/apalache",
            "serves_properties": ["C01", "C02"],
            "kind_free_text": "thorough tier only: inductive invariant (feasibility + bookkeeping) for symbolic durations and machine sets, proved with Apalache",
        }],
        "checks": checks,
        "not_applicable": na,
        "notes": "See DESIGN.md. exit 0 = held (KNOWN-FINDING lines for listed findings), 1 = VIOLATION, 2 = machinery failure.",
    }


def main():
    from . import registry
    m = build(set(registry.CHECKS))
    (VERIF / "MANIFEST.json").write_text(json.dumps(m, indent=1) + "\n")
    print("MANIFEST.json:", len(m["checks"]), "checks,", len(m["not_applicable"]), "not applicable")


if __name__ == "__main__":
    main()
