"""Check for C19 (instance generators)."""
from __future__ import annotations

import json
import random

from . import model, tlcio
from .common import SPEC
from .dsession import _outcome
from .framework import Check, cfg_text

PLACEHOLDER = [[{"ms": [1], "d": 1}]]


def _n(chk, quick, thorough):
    return min(thorough, 5 * quick) if chk.tier == "thorough" else quick   # thorough is capped at 5x quick: every tier must finish well inside its timeout on a shared machine


def _pair(x):
    return [x, x] if isinstance(x, int) else list(x)


def abstract_params(kw):
    return {"jobs": _pair(kw.get("num_jobs", (10, 20))), "machines": _pair(kw.get("num_machines", (5, 10))),
            "dur": list(kw.get("duration_range", (1, 99))), "k": _pair(kw.get("machines_per_operation", 1)),
            "recirc": bool(kw.get("allow_recirculation", False)),
            "allow_less": bool(kw.get("allow_less_jobs_than_machines", True))}


def gen_trace(tid, kw, calls, seeds_by_gen, explicit_args=None):
    """calls: [{"a": "new", "g", "seed"} | {"a": "generate", "g"}] chosen by TLC."""
    from job_shop_lib.generation import GeneralInstanceGenerator
    ng = max(c["g"] for c in calls)
    gens = {}
    outs = [[] for _ in range(ng)]
    names = [[] for _ in range(ng)]
    seeds = [-1] * ng
    events = [{"a": "GenInit", "post": {"outs": [list(o) for o in outs], "names": [list(n) for n in names]}}]
    k = 0
    for c in calls:
        g = c["g"]
        if c["a"] == "new":
            sd = seeds_by_gen.get(g, c.get("seed", 0))
            out, obj = _outcome(lambda: GeneralInstanceGenerator(**dict(kw, seed=sd)))
            if out == "ok":
                gens[g] = obj
                seeds[g - 1] = sd
            events.append({"a": "NewGen", "g": g, "seed": sd, "out": out})
        else:
            nj = nm = 0
            if explicit_args:
                nj, nm = explicit_args[k % len(explicit_args)]
                k += 1
            out, inst = _outcome(lambda: gens[g].generate(**({"num_jobs": nj} if nj else {}), **({"num_machines": nm} if nm else {})))
            ev = {"a": "Generate", "g": g, "nj": nj, "nm": nm, "out": out, "inst": [], "name": "", "nmrep": 0}
            if out == "ok":
                ab = model.instance_to_abstract(inst)
                ev.update({"inst": ab, "name": inst.name, "nmrep": model.num(inst.num_machines)})
                outs[g - 1].append(ab)
                names[g - 1].append(inst.name)
                ev["post"] = {"outs": [list(o) for o in outs], "names": [list(n) for n in names]}
            events.append(ev)
    return {"tid": tid, "inst": PLACEHOLDER, "filt": [], "kinds": [], "featcheck": False, "freshcheck": False, "fresh_obs": [],
            "gen": abstract_params(kw), "seeds": seeds, "events": events, "kind": "G", "kw": kw}


def iter_and_coverage_trace(tid, kw, seed, n_cov):
    from job_shop_lib.generation import GeneralInstanceGenerator
    events = [{"a": "GenInit", "post": {"outs": [[]], "names": [[]]}}]
    limit = 1 + seed % 5

    def it():
        g = GeneralInstanceGenerator(**dict(kw, seed=seed, iteration_limit=limit))
        names = [g.generate().name]
        first = list(g)
        names += [x.name for x in first]
        names.append(g.generate().name)
        second = list(g)
        names += [x.name for x in second]
        return len(first), len(second), len(g), names

    out, r = _outcome(it)
    events.append({"a": "Iter", "limit": limit, "out": out, "counts": [r[0], r[1]] if out == "ok" else [],
                   "len": r[2] if out == "ok" else -1, "names": r[3] if out == "ok" else []})
    # coverage: with the machine count fixed, the eligible machines seen over many instances
    p = abstract_params(kw)
    M = p["machines"][1]

    def cov():
        g = GeneralInstanceGenerator(**dict(kw, seed=seed + 1, num_machines=M))
        seen = set()
        for _ in range(n_cov):
            inst = g.generate()
            for job in inst.jobs:
                for op in job:
                    seen.update(int(m) + 1 for m in op.machines)
        return sorted(seen)

    out, seen = _outcome(cov)
    if out == "ok":
        events.append({"a": "Coverage", "M": M, "k": p["k"], "seen": seen})
    return {"tid": tid, "inst": PLACEHOLDER, "filt": [], "kinds": [], "featcheck": False, "freshcheck": False, "fresh_obs": [],
            "gen": p, "seeds": [seed], "events": events, "kind": "G", "kw": kw}


def iter_proto_trace(tid, kw, seed, limit, calls):
    """calls: [{"c": "iter"} | {"c": "next"} | {"c": "generate"}] (chosen by TLC, or random and longer), executed on
    one real generator; what each next() did is logged and judged against GeneratorIter.tla by the monitor."""
    from job_shop_lib.generation import GeneralInstanceGenerator
    events = [{"a": "GenInit", "post": {"outs": [[]], "names": [[]]}}]
    g = GeneralInstanceGenerator(**dict(kw, seed=seed, iteration_limit=limit))
    logged, names = [], []
    for c in calls:
        rec = {"c": c["c"], "r": "ok"}
        try:
            if c["c"] == "iter":
                if iter(g) is not g:
                    rec["r"] = "exc:iter-returned-another-object"
            elif c["c"] == "next":
                try:
                    names.append(next(g).name)
                    rec["r"] = "yield"
                except StopIteration:
                    rec["r"] = "stop"
            else:
                names.append(g.generate().name)
        except Exception as ex:  # noqa: BLE001
            rec["r"] = "exc:" + type(ex).__name__
        logged.append(rec)
    try:
        ln = len(g)
    except Exception:  # noqa: BLE001
        ln = -1
    events.append({"a": "IterProto", "limit": limit, "calls": logged, "names": names, "len": ln})
    return {"tid": tid, "inst": PLACEHOLDER, "filt": [], "kinds": [], "featcheck": False, "freshcheck": False, "fresh_obs": [],
            "gen": abstract_params(kw), "seeds": [seed], "events": events, "kind": "G", "kw": kw}


def replay_gen(trace, pid):
    """--replay for generator traces: the recorded calls are made again on the current tree and judged again."""
    kw = {k: (tuple(v) if isinstance(v, list) else v) for k, v in trace["kw"].items()}
    evs = trace["events"]
    proto = [e for e in evs if e["a"] == "IterProto"]
    if proto:
        new = iter_proto_trace(1, kw, trace["seeds"][0], proto[0]["limit"], [{"c": c["c"]} for c in proto[0]["calls"]])
    elif any(e["a"] == "Iter" for e in evs):
        new = iter_and_coverage_trace(1, kw, trace["seeds"][0], 150)
    else:
        calls, explicit, seeds = [], [], {}
        for e in evs:
            if e["a"] == "NewGen":
                calls.append({"a": "new", "g": e["g"], "seed": e["seed"]})
                seeds[e["g"]] = e["seed"]
            elif e["a"] == "Generate":
                calls.append({"a": "generate", "g": e["g"]})
                explicit.append((e.get("nj", 0), e.get("nm", 0)))
        new = gen_trace(1, kw, calls, seeds, explicit_args=explicit if any(a != (0, 0) for a in explicit) else None)
    new["owner"] = pid
    new["tid"] = 1
    verdicts, _ = tlcio.monitor("Trace_D.tla", "Trace_D.cfg", f"replay-{pid}", [new], workers=1)
    return verdicts


GRID = [
    dict(num_jobs=(2, 4), num_machines=(2, 3), duration_range=(1, 9)),
    dict(num_jobs=3, num_machines=3, duration_range=(5, 10)),
    dict(num_jobs=(3, 5), num_machines=(2, 4), duration_range=(1, 3), allow_recirculation=True),
    dict(num_jobs=(2, 4), num_machines=(3, 4), duration_range=(1, 9), machines_per_operation=2),
    dict(num_jobs=(2, 3), num_machines=(3, 5), duration_range=(2, 4), machines_per_operation=(1, 3)),
    dict(num_jobs=(2, 6), num_machines=(2, 6), duration_range=(1, 9), allow_less_jobs_than_machines=False),
    dict(num_jobs=(4, 6), num_machines=(2, 4), duration_range=(1, 9), allow_less_jobs_than_machines=False,
         machines_per_operation=(1, 2)),
    dict(num_jobs=(1, 3), num_machines=(1, 2), duration_range=(0, 2)),
    # the same request spelled differently: one machine per operation as a range, an exact count as an int
    dict(num_jobs=(2, 4), num_machines=(3, 4), duration_range=(1, 9), machines_per_operation=(1, 1)),
    dict(num_jobs=3, num_machines=(3, 4), duration_range=(1, 5), machines_per_operation=3),
]


def c19():
    chk = Check("C19", "model_checking")
    from . import framework
    saved = dict(framework.CONST_DEFAULTS)
    framework.CONST_DEFAULTS.clear()
    try:
        chk.mc("MC_Generator.tla", "GenSpec",
               {"Gens": "{1, 2, 3}", "Seeds": "{11, 12}", "MaxCalls": 3 if chk.tier == "quick" else 4,
                "RngDesign": '"private"'}, ["Inv_C19_SameSeedSameSequence"], name="C19-streams")
        # the iteration protocol: every call sequence of __iter__/__next__/generate() up to the bound
        for lim in (1, 2, 3):
            chk.mc("MC_GeneratorIter.tla", "IterSpec",
                   {"Limit": lim, "MaxLen": 8 if chk.tier == "quick" else 11, "IterDesign": '"reset-on-iter"'},
                   ["Inv_C19_PassYieldsExactlyLimit", "Inv_C19_CounterIsPass"], name=f"C19-iter{lim}")
        # ... and without any bound (every limit, call sequences of any length): TLAPS, 32 obligations
        chk.tlaps_proof("GeneratorIterProof.tla", timeout=600,
                        theorem="Safety == IterSpec => [](Inv_C19_PassYieldsExactlyLimit /\\ Inv_C19_CounterIsPass)")
        iter_behs = []
        for lim in (1, 2, 3):
            cfgi = SPEC / f".gen_c19i{lim}.cfg"
            cfgi.write_text(cfg_text("IterSpec", {"Limit": lim, "MaxLen": 6 if chk.tier == "quick" else 8,
                                                  "IterDesign": '"reset-on-iter"'}, constraints=["Emit"]))
            try:
                bi, _ = tlcio.generate("Gen_GeneratorIter.tla", cfgi.name, f"c19i{lim}", workers=1)
            finally:
                cfgi.unlink(missing_ok=True)
            iter_behs += bi
    finally:
        framework.CONST_DEFAULTS.update(saved)
    # TLC chooses the interleavings of constructor / generate() calls on two objects with one seed
    cfg = SPEC / ".gen_c19.cfg"
    cfg.write_text(cfg_text("GGSpec", {"Gens": "{1, 2}", "Seeds": "{11}", "MaxCalls": 3, "RngDesign": '"private"'},
                            constraints=["Emit"]))
    try:
        behs, _ = tlcio.generate("Gen_Generator.tla", cfg.name, "c19", workers=1)
    finally:
        cfg.unlink(missing_ok=True)
    rng = random.Random(chk.seed + 19)
    traces = []
    tid = 0
    for gi, kw in enumerate(GRID):
        sample = behs if chk.tier == "thorough" else rng.sample(behs, min(12, len(behs)))
        for bi, b in enumerate(sample):
            tid += 1
            sd = 0 if bi % 4 == 0 else 1000 * chk.seed + 10 * gi + 7       # seed 0 is a seed like any other
            traces.append(gen_trace(tid, kw, b["calls"], {1: sd, 2: sd}))
        # explicit arguments, as the multi-instance environment passes them
        p = abstract_params(kw)
        tid += 1
        calls = [{"a": "new", "g": 1}] + [{"a": "generate", "g": 1}] * 6
        nj_max, nm_max = p["jobs"][1], p["machines"][1]
        explicit = [(nj_max, nm_max), (nj_max, 0), (0, p["machines"][0])]
        if not p["allow_less"]:
            explicit = [(max(nj_max, nm_max), nm_max), (nj_max, 0)]
        traces.append(gen_trace(tid, kw, calls, {1: 5 + gi}, explicit_args=explicit))
        # many plain generate() calls
        for rep in range(_n(chk, 3, 20)):
            tid += 1
            calls = [{"a": "new", "g": 1}] + [{"a": "generate", "g": 1}] * _n(chk, 25, 60)
            traces.append(gen_trace(tid, kw, calls, {1: 100 * gi + rep + chk.seed}))
        tid += 1
        traces.append(iter_and_coverage_trace(tid, kw, 3 + gi + chk.seed, _n(chk, 150, 600)))
    # every TLC-enumerated call sequence of the iteration protocol, on real generators (small instances), and longer random ones
    small = dict(num_jobs=(2, 3), num_machines=(2, 3), duration_range=(1, 5))
    for k, b in enumerate(iter_behs):
        tid += 1
        traces.append(iter_proto_trace(tid, small if k % 5 else GRID[k % len(GRID)], chk.seed + k, b["limit"], b["calls"]))
    for k in range(_n(chk, 60, 600)):
        tid += 1
        lim = rng.randint(1, 6)
        calls = [{"c": rng.choice(["iter", "next", "next", "next", "generate"])} for _ in range(rng.randint(5, 40))]
        traces.append(iter_proto_trace(tid, small, chk.seed + 7 * k, lim, calls))
    chk.monitor(traces, source="generators", case_key=lambda t: json.dumps([t["gen"], t["seeds"], len(t["events"])]))
    chk.assumptions.append("'drawn from all M machines' is judged on the union over >= 150 generated instances per "
                           "parameter set (a correct generator misses a machine with probability < 1e-30)")
    chk.assumptions.append("parameter sets that cannot be satisfied (k > M, jobs < machines with the flag) are excluded")
    return chk.finish(
        "TLC: generator objects over random streams - same seed => prefix-related outputs under every interleaving "
        "of constructor/generate calls (the shared-global-stream design is refuted as a mutant); traces: every "
        "TLC-chosen interleaving executed on two real generators with one seed over a grid of 8 parameter sets; each "
        "generated instance judged against WellShaped(params), names, iteration counts, machine coverage")


CHECKS = {"C19": c19}
