--------------------------- MODULE GeneratorIter ---------------------------
(***************************************************************************)
(* Iteration protocol of an instance generator (C19, last clause):          *)
(*   __iter__  starts a pass,  __next__  yields an instance or stops,       *)
(*   generate() may be called directly at any time.                         *)
(* One action per method.  The object's state is its iteration counter      *)
(* `cur`; `pass` (ghost) counts the instances yielded since the latest      *)
(* __iter__ (construction counts as one).  The property: whatever was done  *)
(* before - passes abandoned early, direct generate() calls, bare next() -  *)
(* a pass stops exactly after Limit instances.                              *)
(*   IterDesign = "reset-on-iter"   the library: __iter__ zeroes the counter *)
(*              = "rewind-on-stop"  design mutant: the counter is rewound    *)
(*                                  when the pass ends instead               *)
(***************************************************************************)
EXTENDS Naturals, Sequences      \* (the same protocol as a function of a recorded call sequence: IterMismatch in GeneratorShape.tla)
CONSTANTS Limit, MaxLen, IterDesign
VARIABLES cur, pass, calls, bad
ivars == <<cur, pass, calls, bad>>

IterInit == cur = 0 /\ pass = 0 /\ calls = <<>> /\ bad = FALSE
IterStart ==
    /\ Len(calls) < MaxLen
    /\ cur' = IF IterDesign = "reset-on-iter" THEN 0 ELSE cur
    /\ pass' = 0
    /\ calls' = Append(calls, [c |-> "iter"])
    /\ UNCHANGED bad
NextCall ==
    /\ Len(calls) < MaxLen
    /\ IF cur >= Limit
       THEN /\ cur' = IF IterDesign = "rewind-on-stop" THEN 0 ELSE cur
            /\ pass' = pass
            /\ bad' = (bad \/ pass # Limit)              \* stopped early (or late)
            /\ calls' = Append(calls, [c |-> "next", r |-> "stop"])
       ELSE /\ cur' = cur + 1
            /\ pass' = pass + 1
            /\ bad' = (bad \/ pass + 1 > Limit)
            /\ calls' = Append(calls, [c |-> "next", r |-> "yield"])
DirectGenerate ==
    /\ Len(calls) < MaxLen
    /\ calls' = Append(calls, [c |-> "generate"])
    /\ UNCHANGED <<cur, pass, bad>>
IterNext == IterStart \/ NextCall \/ DirectGenerate
IterSpec == IterInit /\ [][IterNext]_ivars

Inv_C19_PassYieldsExactlyLimit == ~bad
Inv_C19_CounterIsPass == IterDesign = "reset-on-iter" => cur = pass

=============================================================================
