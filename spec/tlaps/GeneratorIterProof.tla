------------------------ MODULE GeneratorIterProof ------------------------
(***************************************************************************)
(* C19, last clause, without bounds: for EVERY limit and call sequences of  *)
(* ANY length, under the library's design (the counter is zeroed by         *)
(* __iter__) a pass never stops before or after exactly Limit instances.    *)
(* The inductive invariant is "the object's counter equals the number of    *)
(* instances yielded since the latest __iter__".                            *)
(***************************************************************************)
EXTENDS GeneratorIter, TLAPS

ASSUME Assumptions == Limit \in Nat /\ MaxLen \in Nat /\ IterDesign = "reset-on-iter"

IndInv == /\ cur \in Nat /\ pass \in Nat /\ bad \in BOOLEAN
          /\ cur = pass /\ pass <= Limit /\ ~bad

LEMMA InitInv == IterInit => IndInv
  BY Assumptions DEF IterInit, IndInv

LEMMA StepInv == IndInv /\ [IterNext]_ivars => IndInv'
<1> SUFFICES ASSUME IndInv, [IterNext]_ivars PROVE IndInv'
  OBVIOUS
<1>1. CASE IterStart
  BY <1>1, Assumptions DEF IterStart, IndInv
<1>2. CASE NextCall
  <2>1. CASE cur >= Limit
    BY <1>2, <2>1, Assumptions DEF NextCall, IndInv
  <2>2. CASE ~(cur >= Limit)
    BY <1>2, <2>2, Assumptions DEF NextCall, IndInv
  <2> QED BY <2>1, <2>2
<1>3. CASE DirectGenerate
  BY <1>3 DEF DirectGenerate, IndInv
<1>4. CASE UNCHANGED ivars
  BY <1>4 DEF ivars, IndInv
<1> QED BY <1>1, <1>2, <1>3, <1>4 DEF IterNext

THEOREM Safety == IterSpec => [](Inv_C19_PassYieldsExactlyLimit /\ Inv_C19_CounterIsPass)
<1>1. IndInv => Inv_C19_PassYieldsExactlyLimit /\ Inv_C19_CounterIsPass
  BY DEF IndInv, Inv_C19_PassYieldsExactlyLimit, Inv_C19_CounterIsPass
<1> QED BY InitInv, StepInv, <1>1, PTL DEF IterSpec
=============================================================================
