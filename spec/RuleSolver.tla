----------------------------- MODULE RuleSolver -----------------------------
(* The DispatchingRuleSolver loop on top of the Dispatcher specification:   *)
(* every step dispatches SOME best available operation under the rule (the  *)
(* code takes the first one) on SOME eligible machine (covers both machine  *)
(* choosers).                                                               *)
EXTENDS Dispatcher, Rules, Families

CONSTANT RuleSet
VARIABLE rule
rvars == <<vars, rule>>

RInit == Init /\ rule \in RuleSet
RuleStep == \E o \in BestUnder(rule, inst, State, filt) : \E m \in MSet(inst, o) : Dispatch(o[1], m)
RNext == (RuleStep \/ Begin) /\ UNCHANGED rule
RSpec == RInit /\ [][RNext]_rvars

(* C04: termination with a complete feasible schedule after exactly #ops steps *)
Inv_RuleProgress == Started =>
   (

    ~Complete(inst, sched) =>
        /\ BestUnder(rule, inst, State, filt) # {}
        /\ BestUnder(rule, inst, State, filt) \subseteq Rng(Avail(inst, State, filt))
   )
Inv_OneOpPerStep == Started =>
   (
 NumScheduled(sched) = TLCGet("level") - 2
   )
Inv_RFeasible == Started =>
   (
 Feasible(inst, sched)
   )
(* the direct and the observer-based most-work-remaining scores agree on every available operation *)
Inv_MWKRAgree == Started =>
   (

    /\ \A o \in Rng(Avail(inst, State, filt)) :
          RuleScore("mwkr", inst, State, filt, o) = ObsMwkrScore(inst, State, filt, o[1])
    /\ BestUnder("mwkr", inst, State, filt) = BestUnderObsMwkr(inst, State, filt)
   )
(* tie-breaking compositions always leave a candidate *)
Inv_LexBestNonEmpty == Started =>
   (

    ~Complete(inst, sched) =>
        \A f \in ScoreNames : \A g \in ScoreNames :
            LexBest(<<ScoreVector(f, inst, State, filt), ScoreVector(g, inst, State, filt)>>, inst, State, filt) # {}
   )
(* C03/C08 oracle sanity: lower bound <= optimum <= every rule result *)
Inv_OptBounds == Started =>
   (

    Complete(inst, sched) =>
        /\ LowerBound(inst) <= Opt(inst)
        /\ Opt(inst) <= Makespan(inst, sched)
   )
=============================================================================
