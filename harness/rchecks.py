"""Checks for the rule/optimum properties C04, C08, C03."""
from __future__ import annotations

import random

from . import dsession, model
from .dsession import _outcome
from .framework import Check
from .scenarios import random_behaviour, random_instance, tlc_behaviours, FILTERS

RULES6 = ["spt", "fcfs", "mwkr", "mor", "obs_mwkr", "random"]
SCORE_FNS = ["spt_score", "fcfs_score", "mwkr_score", "mor_score"]


def _n(chk, quick, thorough):
    return min(thorough, 5 * quick) if chk.tier == "thorough" else quick   # thorough is capped at 5x quick: every tier must finish well inside its timeout on a shared machine


def rule_trace(tid, beh, rng, *, rule, chooser, score_lists, solver_filters):
    """Replay the behaviour's (arbitrary) prefix, then let the real solver
    step to completion; ask every rule / score composition in every state."""
    b = dict(beh)
    b["kinds"] = ["rec"]
    s = dsession.DSession(tid, b["inst"], b["filt"], b["kinds"])
    s.create(1)

    def probes():
        if s.dispatcher.schedule.is_complete():
            return
        s.rule_picks(RULES6)
        for fns in score_lists(rng):
            s.score_rule(fns)

    probes()
    for a in beh["hist"]:
        if a["a"] == "D":
            s.dispatch(a["j"], a["p"], a["m"], none=bool(a.get("none", False)))
        elif a["a"] == "R":
            s.dispatch(a["j"], a["p"], a["m"])
        elif a["a"] == "Reset":
            s.reset()
        else:
            continue
        probes()
    total = sum(len(j) for j in b["inst"])
    steps = 0
    while not s.dispatcher.schedule.is_complete() and steps <= total:
        if s.rule_step(rule, chooser) != "ok":
            break
        steps += 1
        probes()
    for sf in solver_filters(rng):
        s.solver_call(rng.choice(RULES6), rng.choice(["first", "random"]), sf)
    return s.trace()


def c04():
    chk = Check("C04", "model_checking")
    mod = "MC_Rules_T.tla" if chk.tier == "thorough" else "MC_Rules_Q.tla"
    chk.mc(mod, "RSpec",
           {"InstFamily": "<- Fam", "FiltFamily": "<- Filt", "NObs": 0, "ObsKinds": "<- NoKinds",
            "RuleSet": '{"spt", "fcfs", "mwkr", "mor"}'},
           ["Inv_RuleProgress", "Inv_OneOpPerStep", "Inv_RFeasible", "Inv_MWKRAgree", "Inv_LexBestNonEmpty"],
           timeout=3000)
    rng = random.Random(chk.seed + 4)

    def score_lists(r):
        # tie-breaking compositions: two ordered pairs, one triple, one single per visited state
        a, b = r.sample(SCORE_FNS, 2)
        return [[a, b], [b, r.choice(SCORE_FNS)], [r.choice(SCORE_FNS) for _ in range(3)], [r.choice(SCORE_FNS)]]

    def solver_filters(r):
        return [r.choice([None, [], ["dom"], ["dom", "idle"], [r.choice(FILTERS)], [r.choice(FILTERS), r.choice(FILTERS)]])]

    behs, _ = tlc_behaviours("c04", fam="FamA", filt="FiltA", mode="prefixes",
                             simulate=f"num={_n(chk, 120, 1200)}", workers=4)
    traces, bmap = [], {}
    for i, b in enumerate(behs):
        t = rule_trace(i + 1, b, rng, rule=RULES6[i % 6], chooser=["first", "random"][(i // 6) % 2],
                       score_lists=score_lists, solver_filters=solver_filters)
        traces.append(t)
        bmap[i + 1] = b
    chk.monitor(traces, source="tlc-prefix+rule-solver", behaviours=bmap)
    n = len(traces)
    traces = []
    for i in range(_n(chk, 120, 1200)):
        # every other instance is tie-rich: more jobs, durations from a two-element set
        b = (random_behaviour(rng, max_jobs=4, max_ops=4, max_m=3) if i % 2 else
             random_behaviour(rng, max_jobs=5, max_ops=3, max_m=3, durs=(1, 2)))
        cut = rng.randint(0, len(b["hist"]))
        b["hist"] = b["hist"][:cut]
        traces.append(rule_trace(n + i + 1, b, rng, rule=RULES6[i % 6], chooser=["first", "random"][(i // 6) % 2],
                                 score_lists=score_lists, solver_filters=solver_filters))
    chk.monitor(traces, source="random-large+rule-solver")
    return chk.finish(
        "TLC: solver loop over instance family x 4 rules x filter configurations: a best available operation "
        "always exists, one operation per step, feasible, direct = observer-based MWKR scores, tie-breaking "
        "never runs out of candidates; traces: the real solver stepped to completion from TLC-chosen "
        "prefixes, every rule and sampled score compositions asked in every visited state, solver(instance) "
        "called with sampled filter configurations")


# ---------------------------------------------------------------------------
def best_filtered_leaves(instance, filt, limit=200000, observers=False):
    """Walk the REAL tree of Dispatcher.available_operations() choices under
    the real filter; return the set of makespans of the complete schedules
    reached (aggregation only: TLC takes the minimum and judges it)."""
    d = model.make_dispatcher(instance, filt)
    if observers:      # as the environments do: observers that query the dispatcher from inside update()
        from job_shop_lib.dispatching.feature_observers import IsReadyObserver, IsCompletedObserver
        IsReadyObserver(d)
        IsCompletedObserver(d)
    leaves = set()
    count = [0]
    answers = {}       # dispatcher state -> the distinct answers available_operations() gave in that state
    sample, seen_nodes = [], [0]
    rs = random.Random(instance.num_operations * 7919 + len(filt))

    def rec(prefix):
        if count[0] > limit:
            return
        avail = list(d.available_operations())
        key = (tuple(d.job_next_operation_index), tuple(d.job_next_available_time), tuple(d.machine_next_available_time))
        answers.setdefault(key, set()).add(tuple(o.operation_id + 1 for o in avail))
        # reservoir sample of visited nodes: (dispatch prefix, what the real filter offered there)
        seen_nodes[0] += 1
        rec_node = {"prefix": [[o.job_id + 1, m + 1] for (o, m) in prefix], "avail": [model.op_ref(o) for o in avail]}
        if len(sample) < 6:
            sample.append(rec_node)
        elif rs.random() < 6 / seen_nodes[0]:
            sample[rs.randrange(6)] = rec_node
        if d.schedule.is_complete():
            leaves.add(int(d.schedule.makespan()))
            count[0] += 1
            return
        if not avail:
            leaves.add(-1)    # dead end: incomplete schedule with nothing available
            return
        for op in avail:
            for m in op.machines:
                d.dispatch(op, m)
                rec(prefix + [(op, m)])
                d.reset()
                for (o2, m2) in prefix:
                    d.dispatch(o2, m2)

    rec([])
    conflicts = [[list(k[0]), sorted(list(a) for a in v)] for k, v in answers.items() if len(v) > 1][:3]
    return sorted(leaves), count[0], conflicts, sample


def _c08_trace(arg):
    i, inst = arg
    s = dsession.DSession(i + 1, inst, [])
    for filt, obs in ((["dom"], False), ([], False), (["dom"], True)):
        if obs and i % 2 and len(inst) * 0 == 0 and max(m for job in inst for op in job for m in op["ms"]) > 2:
            continue
        out, res = _outcome(lambda: best_filtered_leaves(s.instance, filt, observers=obs))
        s._ev({"a": "BestFiltered", "bfilt": filt, "with_observers": obs, "out": out,
               "leaves": res[0] if out == "ok" else [], "nleaves": res[1] if out == "ok" else 0,
               "conflicts": res[2] if out == "ok" else [], "nodes": res[3] if out == "ok" else []})
    return s.trace()


def c08():
    chk = Check("C08", "model_checking")
    mod = "MC_Opt_T.tla" if chk.tier == "thorough" else "MC_Opt_Q.tla"
    chk.mc(mod, "OSpec", {"InstFamily": "<- Fam"}, ["Inv_C08", "Inv_OptLowerBound"], timeout=3000)
    rng = random.Random(chk.seed + 8)
    behs, _ = tlc_behaviours("c08", fam="FamP", filt="FiltNone", mode="complete",
                             simulate=f"num={_n(chk, 400, 2500)}", workers=4)
    insts, seen = [], set()
    for b in behs:
        k = repr(b["inst"])
        if k not in seen:
            seen.add(k)
            insts.append(b["inst"])
    target = len(insts) + _n(chk, 650, 8000)
    while len(insts) < target:
        # 3 jobs on 3 machines, a few flexible operations, positive durations, 5-8 operations: where a
        # wrong end-time estimate can prune every optimal history
        inst = []
        for _ in range(3):
            job = []
            for _ in range(rng.randint(1, 3)):
                ms = rng.sample([1, 2, 3], 2) if rng.random() < 0.3 else [rng.randint(1, 3)]
                job.append({"ms": ms, "d": rng.randint(1, 6)})
            inst.append(job)
        if 5 <= sum(len(j) for j in inst) <= 8:
            insts.append(inst)
    # few machines, long jobs (recirculation), widely spread durations: one wrong pruning step can cost the optimum
    for _ in range(_n(chk, 600, 5000)):
        inst = []
        for _j in range(rng.randint(2, 3)):
            inst.append([{"ms": [rng.randint(1, 2)], "d": rng.choice([1, 2, 3, 10])} for _o in range(rng.randint(1, 3))])
        if 4 <= sum(len(j) for j in inst) <= 7:
            insts.append(inst)
    insts = [x for x in insts if sum(len(j) for j in x) <= 8]
    # durations in fine-grained time units (tens of millions): end times that a 32-bit float cannot tell apart
    big = []
    for src in rng.sample(insts, min(len(insts), _n(chk, 150, 750))):
        B = 2 ** 26
        big.append([[{"ms": list(op["ms"]), "d": B * rng.choice([1, 1, 2]) + op["d"] * rng.choice([1, 1, 3])} for op in job]
                    for job in src])
    insts += big
    from concurrent.futures import ProcessPoolExecutor
    with ProcessPoolExecutor(max_workers=12) as ex:
        traces = list(ex.map(_c08_trace, list(enumerate(insts)), chunksize=16))
    chk.monitor(traces, source="real-dispatch-tree-under-real-filter")
    return chk.finish(
        "TLC: for every instance of the family with positive durations, min makespan over all histories that "
        "only dispatch operations surviving the dominated-operations filter = min over all histories (both "
        "trees exhausted by TLC); binding: the REAL Dispatcher.available_operations() tree under the real "
        "filter is walked and the set of leaf makespans is compared by TLC with Opt(instance)")


def cpsat_event(s, mode, rng, lb=0, ub=0, small=True, with_rules=True):
    from job_shop_lib.constraint_programming import ORToolsSolver
    from job_shop_lib.dispatching.rules import DispatchingRuleSolver

    def go():
        if mode == "timelimit":
            solver = ORToolsSolver(max_time_in_seconds=1e-9)
        elif mode == "shortlimit":
            solver = ORToolsSolver(max_time_in_seconds=1.0)
        elif mode == "relimit":
            # the same object first used under a limit, then with the limit lifted (a public attribute): the
            # second result "does not depend on what the same solver object solved before"
            from job_shop_lib.exceptions import NoSolutionFoundError
            solver = ORToolsSolver(max_time_in_seconds=1e-9)
            try:
                solver.solve(s.instance if rng.random() < 0.5 else model.build_instance(
                    random_instance(rng, max_jobs=3, max_ops=3, max_m=3, flexible=False)))
            except NoSolutionFoundError:
                pass
            solver.max_time_in_seconds = None
        else:
            solver = ORToolsSolver()
        if mode == "reused":
            other = model.build_instance(random_instance(rng, max_jobs=3, max_ops=3, max_m=3, flexible=False))
            solver.solve(other)
            if rng.random() < 0.5:
                solver(model.build_instance(random_instance(rng, max_jobs=2, max_ops=2, max_m=2, flexible=False)))
        return solver(s.instance) if rng.random() < 0.5 else solver.solve(s.instance)

    import time as _time
    t0 = _time.perf_counter()
    out, sch = _outcome(go)
    wall = _time.perf_counter() - t0
    ev = {"a": "CpSat", "mode": mode, "out": out, "sched": [], "makespan": 0, "status": "", "solved_by": "",
          "elapsed_sign": 0, "lb": lb, "ub": ub, "small": bool(small), "rule_mks": [], "elapsed_le_wall": True}
    if out == "ok":
        md = sch.metadata
        el = md.get("elapsed_time")
        ev.update({"sched": model.project_schedule(sch), "makespan": model.num(md.get("makespan")),
                   "status": str(md.get("status")), "solved_by": str(md.get("solved_by")),
                   "elapsed_sign": (-2 if not isinstance(el, (int, float)) else (el > 0) - (el < 0)),
                   # the time the solver reports for itself was spent inside the call measured around it
                   "elapsed_le_wall": bool(isinstance(el, (int, float)) and el <= wall + 0.05)})
        if with_rules:
            mks = []
            for rule in ("shortest_processing_time", "most_work_remaining", "first_come_first_served",
                         "most_operations_remaining"):
                o2, sc = _outcome(lambda: DispatchingRuleSolver(dispatching_rule=rule).solve(s.instance))
                if o2 == "ok":
                    mks.append(int(sc.makespan()))
            ev["rule_mks"] = mks
    s._ev(ev)


def c03():
    chk = Check("C03", "model_checking")
    mod = "MC_Rules_T.tla" if chk.tier == "thorough" else "MC_Rules_Q.tla"
    # the oracles used below (optimum over all dispatch histories, lower bounds) are model-checked:
    # lower bound <= Opt <= the makespan of every rule-built complete schedule
    chk.mc(mod, "RSpec",
           {"InstFamily": "<- Fam", "FiltFamily": "<- FiltNone", "NObs": 0, "ObsKinds": "<- NoKinds",
            "RuleSet": '{"spt", "fcfs", "mwkr", "mor"}'},
           ["Inv_OptBounds", "Inv_RFeasible"], timeout=3000)
    rng = random.Random(chk.seed + 3)
    behs, _ = tlc_behaviours("c03", fam="FamNF", filt="FiltNone", mode="complete",
                             simulate=f"num={_n(chk, 300, 1500)}", workers=4)
    insts, seen = [], set()
    for b in behs:
        k = repr(b["inst"])
        if k not in seen:
            seen.add(k)
            insts.append(b["inst"])
    target = len(insts) + _n(chk, 150, 1500)
    while len(insts) < target:
        insts.append(random_instance(rng, max_jobs=rng.choice([1, 2, 3, 4]), max_ops=rng.choice([1, 2, 3]),
                                     max_m=rng.choice([1, 2, 3]), durs=(0, 0, 1, 2, 3, 5, 9), flexible=False))
    # corners: nothing but zero durations; durations in fine time units on one machine / in one job (the optimum
    # is the total work, so a horizon computed a little too small makes the model infeasible)
    B = 2 ** 24 + 1
    insts += [[[{"ms": [1], "d": 0}], [{"ms": [1], "d": 0}, {"ms": [2], "d": 0}]],
              [[{"ms": [2], "d": 0}, {"ms": [1], "d": 0}, {"ms": [2], "d": 0}]],
              [[{"ms": [1], "d": B}], [{"ms": [1], "d": B}], [{"ms": [1], "d": B + 2}]],
              [[{"ms": [1], "d": B}, {"ms": [2], "d": B}, {"ms": [1], "d": B + 4}]],
              [[{"ms": [1], "d": B}, {"ms": [2], "d": 3}], [{"ms": [2], "d": B + 1}, {"ms": [1], "d": 5}]]]
    traces = []
    for i, inst in enumerate(insts):
        nops = sum(len(j) for j in inst)
        s = dsession.DSession(i + 1, inst, [])
        for mode in ("fresh", "reused", "timelimit") + (("relimit",) if i % 4 == 0 else ()):
            cpsat_event(s, mode, rng, small=nops <= 8)
        traces.append(s.trace())
    chk.monitor(traces, source="cpsat-small-instances")
    # benchmark instances with recorded bounds (too large for Opt by TLC: bounds only)
    from job_shop_lib.benchmarking import load_benchmark_instance
    names = ["ft06"] + (["la01", "la02", "la05", "orb07"] if chk.tier == "thorough" else [])
    traces = []
    for k, nm in enumerate(names):
        bi = load_benchmark_instance(nm)
        inst = model.instance_to_abstract(bi)
        s = dsession.DSession(len(insts) + k + 1, inst, [])
        lb = int(bi.metadata.get("lower_bound") or 0)
        ub = int(bi.metadata.get("optimum") or bi.metadata.get("upper_bound") or 0)
        cpsat_event(s, "fresh", rng, lb=lb, ub=ub, small=False)
        cpsat_event(s, "reused", rng, lb=lb, ub=ub, small=False)
        traces.append(s.trace())
    # a hard instance under a short limit: the search stops with a feasible, not proven optimal, schedule
    for k2, nm in enumerate(["la21"] + (["la27", "ta41"] if chk.tier == "thorough" else [])):
        bi = load_benchmark_instance(nm)
        s = dsession.DSession(len(insts) + len(names) + k2 + 1, model.instance_to_abstract(bi), [])
        # (a run cut short may end "feasible" above the recorded optimum; claiming "optimal" there is judged against it)
        cpsat_event(s, "shortlimit", rng, lb=int(bi.metadata.get("lower_bound") or 0),
                    ub=int(bi.metadata.get("optimum") or 0), small=False, with_rules=False)
        traces.append(s.trace())
    chk.monitor(traces, source="cpsat-benchmarks")
    chk.assumptions.append("OR-Tools CP-SAT is a black box: only its results are judged")
    return chk.finish(
        "TLC: oracles model-checked (lower bound <= Opt <= every rule result); traces: every non-flexible "
        "instance drawn from the TLC family (zero durations, recirculation, single job, one machine) and "
        "random ones solved by a fresh solver, by a solver object that already solved other instances, "
        "and under a 1 ns limit; schedule feasibility/completeness/makespan/optimality (= Opt(instance) "
        "computed by TLC over all dispatch histories) judged by the monitor")


CHECKS = {"C04": c04, "C08": c08, "C03": c03}
