---------------------------- MODULE FeatureModel ----------------------------
(***************************************************************************)
(* Dispatcher + built-in observers as one state machine (C11 C12 C13):     *)
(* every accepted dispatch notifies the subscribers in order; reset resets *)
(* the dispatcher, then every subscriber in order.  The observer records   *)
(* are implementation-shaped (Observers.tla); the invariants compare them  *)
(* with the definitions.                                                   *)
(***************************************************************************)
EXTENDS Observers, Families

CONSTANTS InstFamily, FiltFamily, OrderFamily, MaxResets, ResetMode
VARIABLES inst, filt, order, s, obs, started, nreset, ndisp, fresh
fvars == <<inst, filt, order, s, obs, started, nreset, ndisp, fresh>>

FInit == /\ inst \in InstFamily /\ filt \in FiltFamily /\ order \in OrderFamily
         /\ s = InitState(inst) /\ obs = <<>> /\ started = FALSE /\ nreset = 0 /\ ndisp = 0 /\ fresh = <<>>
(* construction of the observers, in the chosen creation order, on the fresh dispatcher *)
FBegin == /\ ~started /\ started' = TRUE
          /\ obs' = CreateAll(inst, s, filt, order) /\ fresh' = obs'
          /\ UNCHANGED <<inst, filt, order, s, nreset, ndisp>>
FDispatch(j, m) ==
    /\ started /\ ValidRequest(inst, s, j, s.nxt[j], m)
    /\ LET n == DispatchNext(inst, s, j, m)
           e == <<j, s.nxt[j], m, StartTime(s, j, m)>>
       IN s' = n /\ obs' = NotifyAll(inst, n, filt, obs, e)
    /\ ndisp' = ndisp + 1
    /\ UNCHANGED <<inst, filt, order, started, nreset, fresh>>
FReset ==
    /\ started /\ nreset < MaxResets /\ ndisp > 0
    /\ s' = InitState(inst) /\ obs' = ResetAll(inst, InitState(inst), filt, obs, ResetMode)
    /\ nreset' = nreset + 1 /\ ndisp' = 0
    /\ UNCHANGED <<inst, filt, order, started, fresh>>
FNext == FBegin \/ FReset
         \/ \E j \in Jobs(inst) : \E m \in Machines(inst) : s.nxt[j] <= JobLen(inst, j) /\ FDispatch(j, m)
FSpec == FInit /\ [][FNext]_fvars

-----------------------------------------------------------------------------
Dev(t) == UNION {FeatDeviations(inst, s, filt, obs[i]) : i \in {k \in DOMAIN obs : obs[k].t = t}}
NoDev(t, ft, dir, cls) == started => ~\E d \in Dev(t) : d[1] = ft /\ d[2] = dir /\ d[3] = cls

(* C11: per observer class, no deviation of any kind ... *)
FeatureTypes == {"IsReadyObserver", "EarliestStartTimeObserver", "DurationObserver", "IsScheduledObserver",
                 "PositionInJobObserver", "RemainingOperationsObserver", "IsCompletedObserver"}
Inv_C11_IsReady == started => Dev("IsReadyObserver") = {}
Inv_C11_IsScheduled == started => Dev("IsScheduledObserver") = {}
Inv_C11_Position == started => Dev("PositionInJobObserver") = {}
Inv_C11_Remaining == started => Dev("RemainingOperationsObserver") = {}
Inv_C11_IsCompleted == started => Dev("IsCompletedObserver") = {}
(* ... except where the implementation-shaped model reproduces the two recorded findings: *)
Inv_C11_Duration_ExceptOngoing == started => \A d \in Dev("DurationObserver") : d[3] = "g" /\ d[2] = "over"
Inv_C11_Duration_Ongoing == started => ~\E d \in Dev("DurationObserver") : d[3] = "g"             \* known finding
Inv_C11_Est_Under == started => ~\E d \in Dev("EarliestStartTimeObserver") : d[2] = "under"
Inv_C11_Est_Over == started => ~\E d \in Dev("EarliestStartTimeObserver") : d[2] = "over"         \* known finding

(* C12: after a reset every observer equals the freshly constructed one *)
Inv_C12_ResetFresh == (started /\ ndisp = 0) => obs = fresh
(* C13 *)
Inv_C13_Rewards == started => \A i \in DOMAIN obs : RewardsOK(inst, s, obs[i], ndisp)
(* C05 (observer part): the unscheduled-operations observer mirrors the dispatcher *)
Inv_UnschedObserver ==
    started => \A i \in DOMAIN obs : obs[i].t = "UnscheduledOperationsObserver" =>
        /\ obs[i].dq = DequesFor(inst, s)
        /\ obs[i].n = Cardinality(UnscheduledOps(inst, s.sched))
=============================================================================
