------------------------------ MODULE Trace_D ------------------------------
(* TLC driver of the dispatcher-level monitor: one behaviour per recorded   *)
(* trace (chosen in Init, so workers share the batch), one step per event,  *)
(* one verdict line per trace:   <<"V", tid, {<<event, clause, detail>>}>>  *)
EXTENDS MonitorD, Json, IOUtils

Doc == JsonDeserialize(IOEnv.TRACE_FILE)
Traces == Doc.traces

VARIABLES k, l, errs, cur
tvars == <<k, l, errs, cur>>

TInit == k \in DOMAIN Traces /\ l = 0 /\ errs = {} /\ cur = [none |-> TRUE]
TNext == /\ l < Len(Traces[k].events)
         /\ l' = l + 1 /\ k' = k
         /\ LET ev == Traces[k].events[l + 1]
                post == IF "post" \in DOMAIN ev THEN ev.post ELSE cur
            IN /\ cur' = post
               /\ errs' = errs \cup {<<l + 1, c[1], c[2]>> : c \in DClauses(Traces[k], l + 1, cur, post)}
TSpec == TInit /\ [][TNext]_tvars
Verdict == (l = Len(Traces[k].events)) => PrintT(<<"V", ToJson([tid |-> Traces[k].tid, errs |-> errs])>>)
=============================================================================
