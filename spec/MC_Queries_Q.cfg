SPECIFICATION SpecQueries
CONSTANTS
  InstFamily <- FamTiny
  FiltFamily <- Filt
  NObs = 0
  ObsKinds <- NoKinds
  MutStart = "ok"
  MutCache = "ok"
  MutValidate = "ok"
  MutNotify = "ok"
CONSTRAINT Depth9
CHECK_DEADLOCK FALSE
INVARIANT TypeOK
INVARIANT Inv_CacheCoherent
INVARIANT Inv_Partitions
INVARIANT Inv_Tracking
