----------------------------- MODULE Generator -----------------------------
(***************************************************************************)
(* Instance generators (job_shop_lib/generation): what a generated         *)
(* instance must look like for given parameters (C19), and a small model   *)
(* of generator objects drawing from a random stream: RngDesign =          *)
(* "private" (each object owns the stream its seed defines) or "global"    *)
(* (constructing an object reseeds ONE shared stream - the design mutant). *)
(* A draw is identified by <<seed, position in that seed's stream>>.       *)
(***************************************************************************)
EXTENDS GeneratorShape

-----------------------------------------------------------------------------
CONSTANTS Gens, Seeds, MaxCalls, RngDesign
VARIABLES seedOf,    \* generator -> its seed (0: not constructed yet)
          pos,       \* private design: generator -> position in its own stream
          gstream,   \* global design: <<seed of the last reseeding, position>>
          outs       \* generator -> sequence of draws handed out
gvars == <<seedOf, pos, gstream, outs>>
GenInit == seedOf = [g \in Gens |-> 0] /\ pos = [g \in Gens |-> 0] /\ gstream = <<0, 0>> /\ outs = [g \in Gens |-> <<>>]
Construct(g, sd) ==
    /\ seedOf[g] = 0 /\ sd \in Seeds
    /\ seedOf' = [seedOf EXCEPT ![g] = sd]
    /\ gstream' = IF RngDesign = "global" THEN <<sd, 0>> ELSE gstream
    /\ UNCHANGED <<pos, outs>>
Generate(g) ==
    /\ seedOf[g] # 0 /\ Len(outs[g]) < MaxCalls
    /\ IF RngDesign = "global"
       THEN /\ outs' = [outs EXCEPT ![g] = Append(@, gstream)]
            /\ gstream' = <<gstream[1], gstream[2] + 1>> /\ UNCHANGED pos
       ELSE /\ outs' = [outs EXCEPT ![g] = Append(@, <<seedOf[g], pos[g]>>)]
            /\ pos' = [pos EXCEPT ![g] = @ + 1] /\ UNCHANGED gstream
    /\ UNCHANGED seedOf
GenNext == \E g \in Gens : Generate(g) \/ \E sd \in Seeds : Construct(g, sd)
GenSpec == GenInit /\ [][GenNext]_gvars
(* same seed => identical sequences, however the calls interleave *)
Inv_C19_SameSeedSameSequence ==
    \A a, b \in Gens : (seedOf[a] # 0 /\ seedOf[a] = seedOf[b]) =>
        (IsPrefixOf(outs[a], outs[b]) \/ IsPrefixOf(outs[b], outs[a]))
=============================================================================
