----------------------------- MODULE MC_Graph_Q -----------------------------
EXTENDS GraphModel
Fam == Family({<<2, 1>>, <<1, 1, 1>>}, MSeqs(2), {1, 2}) \cup Family({<<2, 2>>}, SingleMSeqs(2), {1, 2})
Filt == FiltNone \cup {<<"dom">>}
Ord == {<< <<"IsCompletedObserver", {MACH, JOBS}>> >>}
=============================================================================
