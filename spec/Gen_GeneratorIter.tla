------------------------- MODULE Gen_GeneratorIter -------------------------
(* behaviour generator: every sequence of __iter__ / __next__ / generate() calls of length MaxLen *)
EXTENDS GeneratorIter, Json, TLC
Terminal == Len(calls) = MaxLen
Emit == Terminal => PrintT(<<"H", ToJson([calls |-> calls, limit |-> Limit])>>)
=============================================================================
