----------------------------- MODULE MC_Core_T -----------------------------
(* thorough tier: 4-operation shapes on 2 machines with zero durations,     *)
(* 3-operation shapes on 3 machines, all filter compositions up to length 2 *)
(* and six of length 3                                                       *)
EXTENDS MC_Dispatcher
Fam == Family({<<2, 1>>, <<1, 1, 1>>, <<2, 2>>, <<3, 1>>, <<2, 1, 1>>}, MSeqs(2), {0, 1, 2})
       \cup Family({<<2, 1>>, <<1, 1, 1>>, <<3>>}, MSeqs(3), {0, 1, 3})
Filt == FiltNone \cup FiltSingles \cup FiltDefault
        \cup {<<"idle", "dom">>, <<"immops", "immmach">>, <<"immmach", "dom">>, <<"dom", "idle", "immops">>, <<"idle", "immops", "dom">>}
=============================================================================
