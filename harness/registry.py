from . import dchecks, rchecks, ochecks, gchecks, echecks, schecks, nchecks

CHECKS = {}
REPLAYERS = {}
CHECKS.update(dchecks.CHECKS)
CHECKS.update(rchecks.CHECKS)
CHECKS.update(ochecks.CHECKS)
CHECKS.update(gchecks.CHECKS)
CHECKS.update(echecks.CHECKS)
CHECKS.update(schecks.CHECKS)
CHECKS.update(nchecks.CHECKS)
REPLAYERS["E"] = echecks.replay_env
